import sys, json
pid=sys.argv[1]
rec=[json.loads(l) for l in open('/verif/properties.jsonl') if json.loads(l)['id']==pid][0]
mech='\n'.join(' - %s (%s)' % (m['name'], m['where']) for m in rec['anchors']['mechanism'])
prop="Property %s: %s\n\nStatement: %s\n\nQuantifier: %s\n\nWhy the existing tests cannot settle it: %s\n\nWhere the code is meant to make it hold (anchors):\n%s\n" % (rec['id'],rec['title'],rec['statement'],rec['quantifier']['text'],rec['why_tests_cant'],mech)
base=open('/verif/tools/agent_prompt.py').read()
body=base[base.index('print(f"""')+len('print(f"""'):base.rindex('""")')]
text=body.replace('{pid}',pid).replace('{prop}',prop)
text=text.replace('/tmp/sa_','/tmp/sd_')
text=text.replace("Task: produce TWO independent source changes","Task (fourth round: three earlier rounds of volunteers have already tried the obvious edits, the less obvious ones, and edits aimed at rarely used features; so aim at (a) interactions between TWO features that are each fine alone, (b) state carried across calls of the public API or across objects (caches, class-level or module-level state, objects re-used for a second job), (c) boundary values (a horizon of 0 or 1, empty or one-element inputs, zero rates, names that are prefixes or case-variants of other names, very large or very small magnitudes), or (d) code paths reached only through an alternative public entry point that does the same job as the usual one): produce TWO independent source changes")
print(text)
