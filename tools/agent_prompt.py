import sys
pid=sys.argv[1]
prop=open('/tmp/prop_%s.txt'%pid).read()
print(f"""You are helping to test a verification framework that you will not see. Work ONLY inside the git worktree at /tmp/sa_{pid} (a checkout of the pure-Python project brianr747/SFC_models, package `sfc_models`: a generator of stock-flow consistent macroeconomic equation systems with an equation parser and an iterative solver) and write your deliverables to /tmp/sa_{pid}_out/. Never read or touch /repo or /verif.

{prop}
Task: produce TWO independent source changes (each a separate patch against the worktree's HEAD) to the `sfc_models` package that each BREAK this property, while (a) the code still imports and (b) the existing test suite still passes exactly as before (221 passed, 1 failed: `sfc_models/deprecated/test_iterative_machine_generator.py::TestIterativeMachineGenerator::test_main` fails in the baseline too). Each change should look like a realistic regression a developer could introduce (a refactoring slip, an optimisation, a 'simplification', a mishandled edge case) - not an obviously malicious change, and NOT one that ordinary use would expose at once: it should need something specific to manifest, e.g. an unusual input, a multi-step sequence of operations, a particular configuration, or two cooperating sites that each look fine alone. The two changes should use different mechanisms.

How to run things: `cd /tmp/sa_{pid} && PYTHONPATH=/tmp/sa_{pid} /venv/bin/python -m pytest -q -p no:cacheprovider --timeout=900`. First check that `PYTHONPATH=/tmp/sa_{pid} /venv/bin/python -c "import sfc_models; print(sfc_models.__file__)"` prints a path under /tmp/sa_{pid}; without PYTHONPATH the interpreter imports a different copy of the package. No network; do not install anything.

For each change i in (1, 2) deliver in /tmp/sa_{pid}_out/:
 - `patch<i>.diff`: output of `git diff` in the worktree; it must apply cleanly with `git apply` to the worktree's HEAD;
 - `demo<i>.py`: a small stand-alone program, run as `PYTHONPATH=<tree> /venv/bin/python demo<i>.py`, that exits 0 and prints PASS on the unmodified tree, and exits 1 and prints FAIL with the change applied; it must exercise the real sfc_models public API and check what the property's statement says (not internal details);
 - `meta<i>.json` with keys: "property" ("{pid}"), "summary" (what was changed), "needs" (what specific input / sequence / configuration is needed for the breakage to manifest), "files" (list of changed files).
Verify yourself for each patch: the test suite result is unchanged with the patch applied; the demo fails with it and passes without it. After finishing patch1 run `git checkout -- .` so that patch2 is independent of patch1; leave the worktree clean (`git checkout -- .`) at the end. Finish with a brief summary of the two changes.""")
