#!/usr/bin/env python3
"""Regenerate seeded/INDEX.md from the meta.json files of the stored seeded changes."""
import glob, json, os
V = os.path.dirname(os.path.dirname(os.path.abspath(__file__)))
ROUND = {c: i + 1 for i, c in enumerate('abcdefghijklmnopqrstuvwxyz')}
rows = []
for d in sorted(glob.glob(os.path.join(V, 'seeded', 'C*_s*'))):
    m = json.load(open(os.path.join(d, 'meta.json')))
    sid = os.path.basename(d)
    rnd = ROUND.get(sid.split('_s')[1][0], '?')
    summ = ' '.join(str(m.get('summary', '')).split())
    if len(summ) > 260:
        summ = summ[:257] + '...'
    caught = ', '.join(k for k, v in sorted((m.get('detected_by') or {}).items()) if v) or '-'
    rows.append('| %s | %s | %s | %s | %s |' % (sid, m.get('breaks_property', sid[:3]), rnd, summ.replace('|', '\\|'), caught))
out = ['# Seeded changes', '',
       'Changes produced by independent sub-agents (given only the property text and a scratch worktree) that break a property while',
       'compiling and passing the repository suite. Each directory holds `patch.diff`, `demo.py` and `meta.json`. "caught by" = quick',
       'checks that reported a VIOLATION when the change was last confirmed (`tools/verify_seed.py` / `tools/reverify_seeds.py`).', '',
       '| id | property | round | what was changed | caught by |', '|---|---|---|---|---|'] + rows
open(os.path.join(V, 'seeded', 'INDEX.md'), 'w').write('\n'.join(out) + '\n')
print(len(rows), 'seeded changes indexed')
