#!/usr/bin/env python3
"""tools/add_required.py <cNN.py> <counter> [...]: append names to the required_counters tuple of a property module
(never touches rec.count calls - the reason this tool exists)."""
import re, sys
p = sys.argv[1]
s = open(p).read()
m = re.search(r"required_counters = \((.*?)\)\n", s, re.S)
assert m, 'required_counters tuple not found'
body = m.group(1).rstrip()
for name in sys.argv[2:]:
    if "'%s'" % name in body:
        continue
    body = body.rstrip(',') + ",\n                         '%s'" % name
s = s[:m.start(1)] + body + s[m.end(1):]
open(p, 'w').write(s)
print('ok', p)
