import sys, json
pid=sys.argv[1]
rec=[json.loads(l) for l in open('/verif/properties.jsonl') if json.loads(l)['id']==pid][0]
mech='\n'.join(' - %s (%s)' % (m['name'], m['where']) for m in rec['anchors']['mechanism'])
prop="Property %s: %s\n\nStatement: %s\n\nQuantifier: %s\n\nWhy the existing tests cannot settle it: %s\n\nWhere the code is meant to make it hold (anchors):\n%s\n" % (rec['id'],rec['title'],rec['statement'],rec['quantifier']['text'],rec['why_tests_cant'],mech)
base=open('/verif/tools/agent_prompt.py').read()
# reuse the body of the first prompt generator
import re
body=base[base.index('print(f"""')+len('print(f"""'):base.rindex('""")')]
text=body.replace('{pid}',pid).replace('{prop}',prop)
text=text.replace("Task: produce TWO independent source changes","Task (second round: third round: two earlier rounds of volunteers tried the obvious edits and the first layer of less obvious ones; aim at rarely exercised features and parameters of the package (optional constructor arguments, federations of regions, gold-standard sectors, deposit and money markets, the expectations household, capitalists, step tracing, the initial steady-state search, exogenous scalars and expressions, multi-output firms, several suppliers) and at behaviour that only shows over several periods or several calls): produce TWO independent source changes")
print(text)
