#!/usr/bin/env python3
"""tools/mutation_sweep.py [--n N] [--seed S] [--workers W] [--files f1,f2]
Automated first-order mutation of the repository package (AST operators), each mutant in a scratch copy under /tmp
(removed afterwards): 1. the repository suite (a mutant it kills is not interesting: we look for changes that PASS the
existing tests), 2. the quick checks mapped to the mutated file.  Writes mutants/auto/RESULTS.json and SUMMARY.md.
Survivors of both are either equivalent mutants or gaps of the checks and need reading."""
import argparse, ast, copy, json, os, random, re, shutil, subprocess, sys, tempfile
from concurrent.futures import ThreadPoolExecutor
V = os.path.dirname(os.path.dirname(os.path.abspath(__file__)))
REPO = '/repo'
FILEMAP = {
 'sfc_models/equation.py': ['C12', 'C06', 'C13', 'C05'],
 'sfc_models/utils.py': ['C13', 'C12', 'C19', 'C16', 'C11', 'C14', 'C09'],
 'sfc_models/equation_parser.py': ['C14', 'C03', 'C10', 'C11', 'C13', 'C02'],
 'sfc_models/equation_solver.py': ['C02', 'C03', 'C10', 'C11', 'C15', 'C17', 'C19'],
 'sfc_models/sector.py': ['C06', 'C04', 'C01', 'C05', 'C07', 'C08', 'C18', 'C11'],
 'sfc_models/models.py': ['C01', 'C05', 'C07', 'C10', 'C16', 'C18', 'C08', 'C14', 'C11'],
 'sfc_models/sector_definitions.py': ['C01', 'C04', 'C09', 'C08', 'C18'],
 'sfc_models/external.py': ['C07', 'C01', 'C04'],
 'sfc_models/base_solver.py': ['C16', 'C20'],
 'sfc_models/deprecated/iterative_machine_generator.py': ['C20'],
}
CMP = {ast.Eq: ast.NotEq, ast.NotEq: ast.Eq, ast.Lt: ast.LtE, ast.LtE: ast.Lt, ast.Gt: ast.GtE, ast.GtE: ast.Gt,
       ast.In: ast.NotIn, ast.NotIn: ast.In, ast.Is: ast.IsNot, ast.IsNot: ast.Is}
BIN = {ast.Add: ast.Sub, ast.Sub: ast.Add, ast.Mult: ast.Div, ast.Div: ast.Mult}


class Sites(ast.NodeVisitor):
    def __init__(self, src=''):
        self.sites = []
        self.fn = []
        self.lines = src.split('\n') + ['']

    def visit_FunctionDef(self, node):
        self.fn.append(node.name)
        self.generic_visit(node)
        self.fn.pop()

    def add(self, node, kind):
        ln = getattr(node, 'lineno', 0)
        if ln and 'pragma: no cover' in self.lines[ln - 1] and not self.lines[ln - 1].lstrip().startswith('def '):
            return
        self.sites.append((id(node), kind, getattr(node, 'lineno', 0), '.'.join(self.fn)))

    def visit_Compare(self, node):
        if type(node.ops[0]) in CMP:
            self.add(node, 'cmp')
        self.generic_visit(node)

    def visit_BinOp(self, node):
        if type(node.op) in BIN and not (isinstance(node.op, ast.Mod)):
            self.add(node, 'bin')
        self.generic_visit(node)

    def visit_BoolOp(self, node):
        self.add(node, 'bool')
        self.generic_visit(node)

    def visit_UnaryOp(self, node):
        if isinstance(node.op, ast.Not):
            self.add(node, 'not')
        self.generic_visit(node)

    def visit_If(self, node):
        if isinstance(node.test, ast.Name) and node.test.id == 'is_python_3':
            # the Python-2 branch is dead code here
            for ch in node.body:
                self.visit(ch)
            return
        if isinstance(node.test, ast.Compare) and isinstance(node.test.left, ast.Name) and node.test.left.id == 'long_name':
            return      # default long names are documentation
        self.add(node, 'ifneg')
        self.generic_visit(node)

    def visit_Call(self, node):
        if isinstance(node.func, ast.Name) and node.func.id in ('Logger', 'print'):
            return      # log text and priorities are not behaviour the properties speak about
        self.generic_visit(node)

    def visit_Constant(self, node):
        if isinstance(node.value, bool):
            self.add(node, 'constbool')
        elif isinstance(node.value, (int, float)):
            self.add(node, 'constnum')
        elif isinstance(node.value, str) and node.value in ('+', '-', '*', '/', '__', '_', 'SUP_', 'DEM_', 'LAG_'):
            self.add(node, 'conststr')
        self.generic_visit(node)

    def visit_Expr(self, node):
        if isinstance(node.value, ast.Call) and not (isinstance(node.value.func, ast.Name) and node.value.func.id == 'Logger'):
            self.add(node, 'delstmt')
        self.generic_visit(node)

    def visit_Return(self, node):
        self.generic_visit(node)

    def visit_Continue(self, node):
        self.add(node, 'continue2break')


def mutate(tree, target_id, kind):
    class T(ast.NodeTransformer):
        def generic_visit(self, node):
            if id(node) == target_id:
                return self.apply(node)
            return super().generic_visit(node)

        def apply(self, node):
            if kind == 'cmp':
                node.ops[0] = CMP[type(node.ops[0])]()
            elif kind == 'bin':
                node.op = BIN[type(node.op)]()
            elif kind == 'bool':
                node.op = ast.Or() if isinstance(node.op, ast.And) else ast.And()
            elif kind == 'not':
                return node.operand
            elif kind == 'ifneg':
                node.test = ast.UnaryOp(op=ast.Not(), operand=node.test)
            elif kind == 'constbool':
                node.value = not node.value
            elif kind == 'constnum':
                node.value = node.value + 1 if node.value != 0 else 1
            elif kind == 'conststr':
                node.value = {'+': '-', '-': '+', '*': '/', '/': '*', '__': '_', '_': '__', 'SUP_': 'DEM_', 'DEM_': 'SUP_',
                              'LAG_': 'LEG_'}[node.value]
            elif kind == 'delstmt':
                return ast.Pass()
            elif kind == 'continue2break':
                return ast.Break()
            return node
    # ids change on deepcopy: locate by position instead
    return T().visit(tree)


def enumerate_sites(path):
    src = open(os.path.join(REPO, path)).read()
    tree = ast.parse(src)
    s = Sites(src)
    s.visit(tree)
    out = []
    for idx, (nid, kind, line, fn) in enumerate(s.sites):
        out.append({'file': path, 'index': idx, 'kind': kind, 'line': line, 'function': fn})
    return out


def build_mutant(site):
    src = open(os.path.join(REPO, site['file'])).read()
    tree = ast.parse(src)
    s = Sites(src)
    s.visit(tree)
    nid, kind, line, fn = s.sites[site['index']]
    new = mutate(tree, nid, kind)
    ast.fix_missing_locations(new)
    return ast.unparse(new)


def sh(cmd, **kw):
    return subprocess.run(cmd, shell=True, capture_output=True, text=True, **kw)


def run_one(site, nproc):
    d = tempfile.mkdtemp(prefix='automut_', dir='/tmp')
    try:
        sh('cp -r %s/sfc_models %s/ && cp -r %s/test %s/ && cp %s/setup.cfg %s/ 2>/dev/null' % (REPO, d, REPO, d, REPO, d))
        orig_lines = open(os.path.join(REPO, site['file'])).read().split('\n')
        try:
            code = build_mutant(site)
            compile(code, site['file'], 'exec')
        except Exception as e:
            return dict(site, status='invalid', err=repr(e)[:100])
        open(os.path.join(d, site['file']), 'w').write(code)
        env = dict(os.environ, PYTHONPATH=d)
        t = sh('cd %s && timeout 300 /venv/bin/python -m pytest -q -x -p no:cacheprovider --timeout=120 2>&1 | tail -3' % d, env=env)
        m = re.search(r'(\d+) failed', t.stdout)
        p = re.search(r'(\d+) passed', t.stdout)
        # -x stops at first failure: baseline has exactly one failing test (test_main); run without -x when 1 failed
        if m:
            t2 = sh('cd %s && timeout 600 /venv/bin/python -m pytest -q -p no:cacheprovider --timeout=120 2>&1 | tail -3' % d, env=env)
            mm = re.search(r'(\d+) failed, (\d+) passed', t2.stdout)
            if not mm or mm.group(0) != '1 failed, 221 passed' or 'test_main' not in sh('cd %s && /venv/bin/python -m pytest -q -p no:cacheprovider --timeout=120 2>&1 | grep FAILED' % d, env=env).stdout:
                return dict(site, status='killed_by_repo_tests', suite=(mm.group(0) if mm else t2.stdout[-80:].strip()))
        elif not p:
            return dict(site, status='killed_by_repo_tests', suite=t.stdout[-80:].strip())
        killed_by = []
        outcomes = {}
        for prop in FILEMAP[site['file']]:
            e = tempfile.mkdtemp(prefix='automutev_', dir='/tmp')
            c = sh('./check %s --tier quick' % prop, cwd=V, env=dict(os.environ, VERIF_REPO=d, VERIF_EVIDENCE_DIR=e, VERIF_REPLAY_DIR=e,
                                                                    VERIF_NPROC=str(nproc)), timeout=1800)
            shutil.rmtree(e, ignore_errors=True)
            outcomes[prop] = c.returncode
            if c.returncode == 1 and 'VIOLATION property=' in c.stdout:
                killed_by.append(prop)
                break
        status = 'killed_by_checks' if killed_by else ('inconclusive_only' if any(v == 2 for v in outcomes.values()) else 'survived')
        return dict(site, status=status, killed_by=killed_by, outcomes=outcomes,
                    mutated_line=(orig_lines[site['line'] - 1].strip()[:140] if site['line'] else ''))
    finally:
        shutil.rmtree(d, ignore_errors=True)


def main():
    ap = argparse.ArgumentParser()
    ap.add_argument('--n', type=int, default=200)
    ap.add_argument('--seed', type=int, default=0)
    ap.add_argument('--workers', type=int, default=4)
    ap.add_argument('--files', default=','.join(FILEMAP))
    a = ap.parse_args()
    sites = []
    for f in a.files.split(','):
        sites += enumerate_sites(f)
    rng = random.Random(a.seed)
    rng.shuffle(sites)
    sites = sites[:a.n]
    os.makedirs(os.path.join(V, 'mutants', 'auto'), exist_ok=True)
    respath = os.path.join(V, 'mutants', 'auto', 'RESULTS_seed%d.json' % a.seed)
    results = []
    nproc = max(2, 16 // a.workers)
    with ThreadPoolExecutor(max_workers=a.workers) as ex:
        for r in ex.map(lambda s: run_one(s, nproc), sites):
            results.append(r)
            print(r['status'], r['file'], r['line'], r['kind'], r.get('function'), r.get('killed_by'), flush=True)
            json.dump(results, open(respath, 'w'), indent=1)
    cnt = {}
    for r in results:
        cnt[r['status']] = cnt.get(r['status'], 0) + 1
    print('SUMMARY', cnt)


main()
