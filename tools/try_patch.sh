#!/bin/sh
# tools/try_patch.sh <patch.diff> <PROP> [quick|thorough] [seed]
# Applies a patch to a scratch worktree of /repo HEAD (outside /repo and /verif), runs the check against it,
# removes the worktree.  Evidence/replays of such runs go to a scratch dir, never into /verif/evidence.
patch="$1"; prop="$2"; tier="${3:-quick}"; seed="${4:-0}"
d=$(mktemp -d /tmp/mut_XXXXXX)
git -C /repo worktree add --detach -f "$d" HEAD -q >/dev/null 2>&1 || exit 3
if ! git -C "$d" apply "$patch"; then echo "PATCH DOES NOT APPLY"; git -C /repo worktree remove --force "$d"; exit 3; fi
e=$(mktemp -d /tmp/mutev_XXXXXX)
cd "$(dirname "$0")/.." && VERIF_SEED=$seed VERIF_REPO="$d" VERIF_EVIDENCE_DIR="$e" VERIF_REPLAY_DIR="$e" ./check "$prop" --tier "$tier" | cut -c1-600 | head -${LINES_SHOWN:-6}
rc=$?
git -C /repo worktree remove --force "$d"; rm -rf "$e"
