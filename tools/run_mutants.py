#!/usr/bin/env python3
"""tools/run_mutants.py [ids...]  - apply each /verif/mutants/<id>.diff to a scratch worktree, run the repository
suite (must stay 221 passed / 1 failed) and the quick checks named in <id>.json; prints a kill matrix line per mutant
and writes mutants/RESULTS.json.  Scratch worktrees are removed."""
import json, os, re, subprocess, sys, tempfile, shutil, glob
V = os.path.dirname(os.path.dirname(os.path.abspath(__file__)))
ids = sys.argv[1:] or sorted(os.path.basename(p)[:-5] for p in glob.glob(os.path.join(V, 'mutants', '*.json')) if not p.endswith('RESULTS.json'))
respath = os.path.join(V, 'mutants', 'RESULTS.json')
results = json.load(open(respath)) if os.path.exists(respath) else {}
def sh(cmd, **kw): return subprocess.run(cmd, shell=True, capture_output=True, text=True, **kw)
for mid in ids:
    meta = json.load(open(os.path.join(V, 'mutants', mid + '.json')))
    d = tempfile.mkdtemp(prefix='mut_', dir='/tmp'); os.rmdir(d)
    sh('git -C /repo worktree add --detach -f %s HEAD' % d)
    try:
        a = sh('git -C %s apply %s' % (d, os.path.join(V, 'mutants', mid + '.diff')))
        if a.returncode:
            print(mid, 'PATCH DOES NOT APPLY'); results[mid] = {'applies': False}; continue
        t = sh('cd %s && /venv/bin/python -m pytest -q -p no:cacheprovider --timeout=900 2>&1 | tail -3' % d, env=dict(os.environ, PYTHONPATH=d))
        m = re.search(r'(\d+) failed, (\d+) passed', t.stdout)
        suite = m.group(0) if m else t.stdout[-120:].strip()
        row = {'suite': suite, 'checks': {}}
        for p in meta['props']:
            e = tempfile.mkdtemp(prefix='mutev_', dir='/tmp')
            c = sh('./check %s --tier quick' % p, cwd=V, env=dict(os.environ, VERIF_REPO=d, VERIF_EVIDENCE_DIR=e, VERIF_REPLAY_DIR=e))
            row['checks'][p] = {'exit': c.returncode if ('VIOLATION property=' in c.stdout or c.returncode != 1) else 3, 'kinds': sorted(set(re.findall(r'kind=(\S+)', c.stdout)))[:4]}
            shutil.rmtree(e, ignore_errors=True)
        results[mid] = row
        print(mid, '| suite:', suite, '|', ' '.join('%s=%s' % (p, 'KILLED' if r['exit'] == 1 else ('INCONCLUSIVE' if r['exit'] == 2 else ('CHECK-BROKEN' if r['exit'] == 3 else 'survived'))) for p, r in row['checks'].items()), '|', meta['why'][:70])
    finally:
        sh('git -C /repo worktree remove --force %s' % d)
json.dump(results, open(respath, 'w'), indent=1, sort_keys=True)
