import sys, json
pid=sys.argv[1]
rec=[json.loads(l) for l in open('/verif/properties.jsonl') if json.loads(l)['id']==pid][0]
mech='\n'.join(' - %s (%s)' % (m['name'], m['where']) for m in rec['anchors']['mechanism'])
prop="Property %s: %s\n\nStatement: %s\n\nQuantifier: %s\n\nWhy the existing tests cannot settle it: %s\n\nWhere the code is meant to make it hold (anchors):\n%s\n" % (rec['id'],rec['title'],rec['statement'],rec['quantifier']['text'],rec['why_tests_cant'],mech)
base=open('/verif/tools/agent_prompt.py').read()
body=base[base.index('print(f"""')+len('print(f"""'):base.rindex('""")')]
text=body.replace('{pid}',pid).replace('{prop}',prop)
text=text.replace('/tmp/sa_','/tmp/sh_')
text=text.replace("Task: produce TWO independent source changes","Task (eighth round: seven earlier rounds of volunteers have tried obvious edits, rarely used features, state carried across calls or objects, boundary values, alternative entry points, numerical handling, ordering, name strings, defaults, refactoring slips, and mechanisms that work only partially. This time aim at the EDGES OF THE API CONTRACT: (a) what is left behind after an exception was raised and the caller carries on with the same objects (half-updated series or registries, a flag not reset, a parser or solver that is used again after a failed job); (b) inputs mutated by the callee or outputs aliased to internal state, where an earlier round has not already done exactly that for the same function; (c) idempotence - calling a public method a second time, or calling a getter, a Dump/Log/LogInfo/trace/diagnostic facility, or registering log files, changes what is computed afterwards; (d) a promise made in a docstring or comment of the package that the code silently stops keeping for some inputs; (e) interaction of the steady-state option, step tracing, user functions or equation reduction with the mechanism of this property. IMPORTANT: do not use git stash (the stash is shared between worktrees); use git diff > file and git checkout -- . instead. Read the existing tests first and keep what they pin down): produce TWO independent source changes")
print(text)
