#!/usr/bin/env python3
"""Re-run every seeded change (seeded/<id>/patch.diff) against the CURRENT /repo HEAD and the current checks:
scratch worktree, apply, repository suite, demo, quick check of the property it breaks.  Updates meta.json and INDEX."""
import glob, json, os, re, shutil, subprocess, sys, tempfile
V = os.path.dirname(os.path.dirname(os.path.abspath(__file__)))
def sh(cmd, **kw): return subprocess.run(cmd, shell=True, capture_output=True, text=True, **kw)
only = sys.argv[1:]
bad = 0
for d in sorted(glob.glob(os.path.join(V, 'seeded', '*'))):
    if not os.path.isdir(d): continue
    sid = os.path.basename(d)
    if only and sid not in only: continue
    meta = json.load(open(os.path.join(d, 'meta.json')))
    wt = tempfile.mkdtemp(prefix='reseed_', dir='/tmp'); os.rmdir(wt)
    sh('git -C /repo worktree add --detach -f %s HEAD' % wt)
    try:
        env = dict(os.environ, PYTHONPATH=wt)
        clean = sh('/venv/bin/python %s' % os.path.join(d, 'demo.py'), env=env, cwd=wt, timeout=900).returncode
        a = sh('git -C %s apply %s' % (wt, os.path.join(d, 'patch.diff')))
        if a.returncode:
            print(sid, 'PATCH NO LONGER APPLIES'); bad += 1; meta['applies_to_head'] = False
            json.dump(meta, open(os.path.join(d, 'meta.json'), 'w'), indent=1); continue
        t = sh('cd %s && /venv/bin/python -m pytest -q -p no:cacheprovider --timeout=900 2>&1 | tail -3' % wt, env=env)
        m = re.search(r'(\d+) failed, (\d+) passed', t.stdout); suite = m.group(0) if m else '?'
        demo = sh('/venv/bin/python %s' % os.path.join(d, 'demo.py'), env=env, cwd=wt, timeout=900).returncode
        props = list(meta['detected_by'].keys())
        det, kinds = {}, {}
        for p in props:
            e = tempfile.mkdtemp(prefix='seedev_', dir='/tmp')
            c = sh('./check %s --tier quick' % p, cwd=V, env=dict(os.environ, VERIF_REPO=wt, VERIF_EVIDENCE_DIR=e, VERIF_REPLAY_DIR=e))
            det[p] = (c.returncode == 1 and 'VIOLATION property=' in c.stdout)
            kinds[p] = sorted(set(re.findall(r'kind=(\S+)', c.stdout)))[:6]
            shutil.rmtree(e, ignore_errors=True)
        head = sh('git -C /repo rev-parse --short HEAD').stdout.strip()
        meta.update({'detected_by': det, 'violation_kinds': kinds, 'applies_to_head': True, 'reverified_against_repo_commit': head,
                     'reverified': {'demo_clean_exit': clean, 'suite_with_patch': suite, 'demo_patched_exit': demo}})
        json.dump(meta, open(os.path.join(d, 'meta.json'), 'w'), indent=1)
        okp = det.get(meta['breaks_property'])
        print(sid, 'suite', suite, 'demo', clean, demo, 'caught' if okp else 'NOT CAUGHT', det)
        if not okp or suite != '1 failed, 221 passed' or clean != 0 or demo != 1: bad += 1
    finally:
        sh('git -C /repo worktree remove --force %s' % wt)
sh('python3 %s' % os.path.join(V, 'tools', 'mkindex.py'))
print('problems:', bad)
