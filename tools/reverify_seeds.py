#!/usr/bin/env python3
"""tools/reverify_seeds.py [--fast] [--workers N] [ids...]
Re-run every seeded change (seeded/<id>/patch.diff) against the CURRENT /repo HEAD and the current checks:
scratch worktree, apply, repository suite, demo, quick check of the property it breaks (plus the other checks recorded
in its meta.json).  --fast skips suite and demo for changes already confirmed against the same /repo commit (only the
checks changed since).  Updates meta.json and INDEX."""
import glob, json, os, re, shutil, subprocess, sys, tempfile
from concurrent.futures import ThreadPoolExecutor
V = os.path.dirname(os.path.dirname(os.path.abspath(__file__)))
def sh(cmd, **kw): return subprocess.run(cmd, shell=True, capture_output=True, text=True, **kw)
args = sys.argv[1:]
fast = '--fast' in args
workers = 1
if '--workers' in args:
    workers = int(args[args.index('--workers') + 1])
only = [a for a in args if not a.startswith('--') and not a.isdigit()]
head = sh('git -C /repo rev-parse --short HEAD').stdout.strip()
nproc = max(2, 16 // workers)


def one(d):
    sid = os.path.basename(d)
    meta = json.load(open(os.path.join(d, 'meta.json')))
    wt = tempfile.mkdtemp(prefix='reseed_', dir='/tmp'); os.rmdir(wt)
    sh('git -C /repo worktree add --detach -f %s HEAD' % wt)
    try:
        env = dict(os.environ, PYTHONPATH=wt)
        skip = fast and meta.get('reverified_against_repo_commit', meta.get('confirmed_against_repo_commit')) == head
        clean = suite = demo = None
        if not skip:
            clean = sh('/venv/bin/python %s' % os.path.join(d, 'demo.py'), env=env, cwd=wt, timeout=900).returncode
        a = sh('git -C %s apply %s' % (wt, os.path.join(d, 'patch.diff')))
        if a.returncode:
            meta['applies_to_head'] = False
            json.dump(meta, open(os.path.join(d, 'meta.json'), 'w'), indent=1)
            return sid, 'PATCH NO LONGER APPLIES', True
        if not skip:
            t = sh('cd %s && /venv/bin/python -m pytest -q -p no:cacheprovider --timeout=900 2>&1 | tail -3' % wt, env=env)
            m = re.search(r'(\d+) failed, (\d+) passed', t.stdout); suite = m.group(0) if m else '?'
            demo = sh('/venv/bin/python %s' % os.path.join(d, 'demo.py'), env=env, cwd=wt, timeout=900).returncode
        props = list(meta['detected_by'].keys())
        det, kinds = {}, {}
        for p in props:
            e = tempfile.mkdtemp(prefix='seedev_', dir='/tmp')
            c = sh('./check %s --tier quick' % p, cwd=V, env=dict(os.environ, VERIF_REPO=wt, VERIF_EVIDENCE_DIR=e, VERIF_REPLAY_DIR=e,
                                                                VERIF_NPROC=str(nproc)))
            det[p] = (c.returncode == 1 and 'VIOLATION property=' in c.stdout)
            kinds[p] = sorted(set(re.findall(r'kind=(\S+)', c.stdout)))[:6]
            shutil.rmtree(e, ignore_errors=True)
        meta.update({'detected_by': det, 'violation_kinds': kinds, 'applies_to_head': True})
        if not skip:
            meta.update({'reverified_against_repo_commit': head,
                         'reverified': {'demo_clean_exit': clean, 'suite_with_patch': suite, 'demo_patched_exit': demo}})
        json.dump(meta, open(os.path.join(d, 'meta.json'), 'w'), indent=1)
        okp = det.get(meta['breaks_property'])
        problem = (not okp) or (not skip and (suite != '1 failed, 221 passed' or clean != 0 or demo != 1))
        return sid, 'suite %s demo %s %s %s %s' % (suite, clean, demo, 'caught' if okp else 'NOT CAUGHT', det), problem
    finally:
        sh('git -C /repo worktree remove --force %s' % wt)


dirs = [d for d in sorted(glob.glob(os.path.join(V, 'seeded', '*'))) if os.path.isdir(d)
        and (not only or os.path.basename(d) in only)]
bad = 0
with ThreadPoolExecutor(max_workers=workers) as ex:
    for sid, msg, problem in ex.map(one, dirs):
        print(sid, msg, flush=True)
        bad += bool(problem)
sh('python3 %s' % os.path.join(V, 'tools', 'mkindex.py'))
print('problems:', bad)
