#!/usr/bin/env python3
"""tools/run_benign.py [ids...] - behaviour-preserving refactorings of the repository (benign/*.diff): every quick check
must stay silent (exit 0) on them.  Scratch worktrees are removed."""
import glob, json, os, re, shutil, subprocess, sys, tempfile
V = os.path.dirname(os.path.dirname(os.path.abspath(__file__)))
ids = [a for a in sys.argv[1:] if not a.startswith('-')] or sorted(os.path.basename(p)[:-5] for p in glob.glob(os.path.join(V, 'benign', '*.json')) if 'RESULTS' not in p)
props = [json.loads(l)['id'] for l in open(os.path.join(V, 'properties.jsonl'))]
def sh(cmd, **kw): return subprocess.run(cmd, shell=True, capture_output=True, text=True, **kw)
res = {}
for bid in ids:
    d = tempfile.mkdtemp(prefix='ben_', dir='/tmp'); os.rmdir(d)
    sh('git -C /repo worktree add --detach -f %s HEAD' % d)
    try:
        if sh('git -C %s apply %s' % (d, os.path.join(V, 'benign', bid + '.diff'))).returncode:
            print(bid, 'PATCH DOES NOT APPLY'); continue
        row = {}
        for p in props:
            e = tempfile.mkdtemp(prefix='benev_', dir='/tmp')
            c = sh('./check %s --tier quick' % p, cwd=V, env=dict(os.environ, VERIF_REPO=d, VERIF_EVIDENCE_DIR=e, VERIF_REPLAY_DIR=e))
            row[p] = c.returncode
            if c.returncode != 0:
                print(bid, p, 'exit', c.returncode, ' | '.join(l[:300] for l in c.stdout.split('\n') if l.startswith(('  kind=', 'INCONCL')))[:700])
            shutil.rmtree(e, ignore_errors=True)
        res[bid] = row
        print(bid, 'alarms:', [p for p, r in row.items() if r != 0] or 'none')
    finally:
        sh('git -C /repo worktree remove --force %s' % d)
path = os.path.join(V, 'benign', 'RESULTS.json')
try:
    allres = json.load(open(path))
except Exception:
    allres = {}
allres.update(res)       # results of earlier runs for other ids are kept
json.dump(allres, open(path, 'w'), indent=1, sort_keys=True)
