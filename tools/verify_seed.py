#!/usr/bin/env python3
"""tools/verify_seed.py <agent_out_dir> <PROP> <i> <seed_id> [extra check props...]
Confirms a sub-agent's change in a scratch worktree of /repo HEAD (removed afterwards):
 demo passes without, patch applies, repository suite unchanged with it (221 passed / 1 failed), demo fails with it;
 then runs ./check for the property (and extra ones) against the patched tree and records whether it is caught.
On success stores /verif/seeded/<seed_id>/{patch.diff,demo.py,meta.json}."""
import json, os, re, shutil, subprocess, sys, tempfile
out, prop, i, sid = sys.argv[1:5]
extra = sys.argv[5:]
V = os.path.dirname(os.path.dirname(os.path.abspath(__file__)))
patch = os.path.join(out, 'patch%s.diff' % i); demo = os.path.join(out, 'demo%s.py' % i)
meta = json.load(open(os.path.join(out, 'meta%s.json' % i)))
d = tempfile.mkdtemp(prefix='seedwt_', dir='/tmp'); os.rmdir(d)
def sh(cmd, **kw):
    return subprocess.run(cmd, shell=True, capture_output=True, text=True, **kw)
res = {}
try:
    assert sh('git -C /repo worktree add --detach -f %s HEAD' % d).returncode == 0
    env = dict(os.environ, PYTHONPATH=d)
    r = sh('/venv/bin/python %s' % demo, env=env, cwd=d, timeout=600); res['demo_clean_exit'] = r.returncode
    a = sh('git -C %s apply %s' % (d, patch)); res['applies'] = a.returncode == 0
    if not res['applies']:
        print('PATCH DOES NOT APPLY', a.stderr); sys.exit(1)
    t = sh('cd %s && /venv/bin/python -m pytest -q -p no:cacheprovider --timeout=900 2>&1 | tail -3' % d, env=env, timeout=1200)
    m = re.search(r'(\d+) failed, (\d+) passed', t.stdout); res['suite'] = m.group(0) if m else t.stdout[-200:]
    f = re.search(r'FAILED (\S+)', t.stdout); res['suite_failed'] = f.group(1) if f else None
    r = sh('/venv/bin/python %s' % demo, env=env, cwd=d, timeout=600); res['demo_patched_exit'] = r.returncode
    caught = {}
    for p in [prop] + extra:
        e = tempfile.mkdtemp(prefix='seedev_', dir='/tmp')
        c = sh('./check %s --tier quick' % p, cwd=V, env=dict(os.environ, VERIF_REPO=d, VERIF_EVIDENCE_DIR=e, VERIF_REPLAY_DIR=e), timeout=3000)
        kinds = sorted(set(re.findall(r'kind=(\S+)', c.stdout)))
        caught[p] = {'exit': c.returncode if ('VIOLATION property=' in c.stdout or c.returncode != 1) else 3, 'kinds': kinds[:6]}
        shutil.rmtree(e, ignore_errors=True)
    res['checks'] = caught
finally:
    sh('git -C /repo worktree remove --force %s' % d)
ok = (res.get('demo_clean_exit') == 0 and res.get('demo_patched_exit') == 1 and res.get('suite') == '1 failed, 221 passed'
      and (res.get('suite_failed') or '').endswith('test_main'))
res['confirmed'] = ok
print(json.dumps(res, indent=1))
if ok:
    dst = os.path.join(V, 'seeded', sid); os.makedirs(dst, exist_ok=True)
    shutil.copy(patch, os.path.join(dst, 'patch.diff')); shutil.copy(demo, os.path.join(dst, 'demo.py'))
    head = sh('git -C /repo rev-parse --short HEAD').stdout.strip()
    json.dump({'id': sid, 'breaks_property': prop, 'summary': meta.get('summary'), 'needs_to_manifest': meta.get('needs'),
               'files': meta.get('files'), 'source': 'independent sub-agent given only the property text',
               'confirmed_against_repo_commit': head,
               'what_i_ran': ['demo on clean worktree: exit %s' % res['demo_clean_exit'], 'git apply patch.diff: ok',
                              'repository suite with patch: %s (%s)' % (res['suite'], res['suite_failed']),
                              'demo on patched worktree: exit %s' % res['demo_patched_exit'],
                              './check <prop> --tier quick with VERIF_REPO=<patched worktree>'],
               'detected_by': {p: (v['exit'] == 1) for p, v in res['checks'].items()},
               'violation_kinds': {p: v['kinds'] for p, v in res['checks'].items()}},
              open(os.path.join(dst, 'meta.json'), 'w'), indent=1)
