import sys, json
pid=sys.argv[1]
rec=[json.loads(l) for l in open('/verif/properties.jsonl') if json.loads(l)['id']==pid][0]
mech='\n'.join(' - %s (%s)' % (m['name'], m['where']) for m in rec['anchors']['mechanism'])
prop="Property %s: %s\n\nStatement: %s\n\nQuantifier: %s\n\nWhy the existing tests cannot settle it: %s\n\nWhere the code is meant to make it hold (anchors):\n%s\n" % (rec['id'],rec['title'],rec['statement'],rec['quantifier']['text'],rec['why_tests_cant'],mech)
base=open('/verif/tools/agent_prompt.py').read()
body=base[base.index('print(f"""')+len('print(f"""'):base.rindex('""")')]
text=body.replace('{pid}',pid).replace('{prop}',prop)
text=text.replace('/tmp/sa_','/tmp/se_')
text=text.replace("Task: produce TWO independent source changes","Task (fifth round: four earlier rounds of volunteers have already tried the obvious edits, edits aimed at rarely used features, at state carried across calls or objects, at boundary values and at alternative entry points. This time start by reading the code around the anchors AND the existing tests, note what the tests actually pin down, and pick behaviour the tests leave free. Prefer changes in (a) numerical handling - tolerances, comparisons (< vs <=, abs or not), rounding and float formatting of parameters, sign handling, division by small numbers; (b) ordering and iteration - the order in which sectors, variables, terms or dictionary entries are visited, sorting keys, early exits from loops; (c) string handling of names - names that are prefixes, suffixes or substrings of other names, underscores, whitespace, letter case, names that look like numbers or keywords; (d) default arguments and optional parameters whose default the tests never override, or override only one way): produce TWO independent source changes")
print(text)
