#!/usr/bin/env python3
"""Regenerate seeded/INDEX.md (which checks catch which seeded change) and mutants/INDEX.md."""
import glob, json, os
V = os.path.dirname(os.path.dirname(os.path.abspath(__file__)))
rows = []
for f in sorted(glob.glob(os.path.join(V, 'seeded', '*', 'meta.json'))):
    m = json.load(open(f))
    det = ', '.join('%s: %s' % (p, 'caught (' + '/'.join(m['violation_kinds'].get(p, [])[:2]) + ')' if ok else 'not caught')
                    for p, ok in m['detected_by'].items())
    rows.append('| %s | %s | %s | %s | %s |' % (m['id'], m['breaks_property'], (m['summary'] or '').replace('|', '/').replace('\n', ' ')[:230],
                                               (m['needs_to_manifest'] or '').replace('|', '/').replace('\n', ' ')[:200], det))
out = ['# Seeded changes (independent sub-agents, property text only)', '',
       'Each was confirmed in a scratch worktree: demo passes without the patch, patch applies, repository suite stays at',
       '221 passed / 1 failed (`test_main`, failing in the baseline too), demo fails with it. "caught" = the quick check exits 1',
       'with a VIOLATION line against the patched tree (final state of the machinery, after any widening recorded in DESIGN.md §5).', '',
       '| id | property | change | needs | quick checks |', '|---|---|---|---|---|'] + rows
open(os.path.join(V, 'seeded', 'INDEX.md'), 'w').write('\n'.join(out) + '\n')
res = os.path.join(V, 'mutants', 'RESULTS.json')
if os.path.exists(res):
    R = json.load(open(res))
    rows = []
    for mid in sorted(R):
        meta = json.load(open(os.path.join(V, 'mutants', mid + '.json')))
        r = R[mid]
        rows.append('| %s | %s | %s | %s |' % (mid, meta['why'], r.get('suite'), ', '.join(
            '%s: %s' % (p, 'killed' if c['exit'] == 1 else 'survived/other(%s)' % c['exit']) for p, c in r.get('checks', {}).items())))
    out = ['# Hand-written mutants (sanity of the monitors; some also break repository tests and are kept only as sanity checks)', '',
           '| id | change | repository suite | quick checks |', '|---|---|---|---|'] + rows
    open(os.path.join(V, 'mutants', 'INDEX.md'), 'w').write('\n'.join(out) + '\n')
print(len(glob.glob(os.path.join(V, 'seeded', '*', 'meta.json'))), 'seeds indexed')
