#!/usr/bin/env python3
"""Regenerate MANIFEST.json from the table below (claims) and properties.jsonl (ids)."""
import json, os
HERE = os.path.dirname(os.path.dirname(os.path.abspath(__file__)))
LEVEL_NOTE = ("Trusted base: CPython 3.12 (/venv/bin/python), eval/tokenize/fractions, the generators and "
              "oracles under /verif/vf, and that sfc_models imports from the /repo working tree (asserted at "
              "start, recorded in evidence).")
CLAIMS = {
 'C09': ("closed-form Fraction recursions of the book vs the exact re-solution of the emitted equations (equality, SIM/SIMEX1) and vs the real series (1e-6, PC; own stop rule, hand-coded SIM)",
         "Held on K observed parameter vectors (on and off the 4-decimal grid), spending and rate paths, zero and non-zero consistent initial stocks: Y, T, YD, C, H/V, B_h, H_h of the bundled builders follow the book recursions.", "3/C09"),
 'C05': ("closure / canonical-name / placeholder scan of the emitted text against the object graph with an independent splitter; placeholder-embedding driver; value equality of emitted and sector-local forms",
         "Held on K observed models: every left-hand side canonical and unique, every right-hand-side name defined, no placeholder token in any code part, embedded names resolve to the variable they were requested for (sector, same-sector and model-level equations, exogenous definitions, cross rates requested before the build), emitted equations equal their local forms under valuations; models run through main(), the same passes by hand, the GUI step runner, and a second build after further equations were added.", "3/C05"),
 'C08': ("differential execution over random linear extensions of the declaration order (all 720 orders of SIM in the thorough tier), exact comparison of the re-solved systems",
         "Held on K observed builds: permuted declaration orders give the same variable set and the same exact solution; a permuted build that fails is a violation. Country order is fixed (documented dependence).", "3/C08"),
 'C18': ("structural-name-map differential: renamed vs default codes, stand-alone vs embedded economies and book builders, exact comparison of the re-solved systems",
         "Held on K observed builds: renamed (random and tricky codes) and embedded economies, incl. the bundled SIM/SIMEX1/PC builders with their book exogenous on and off, have the mapped variable set and equal exact solutions.", "3/C18"),
 'C01': ("offline conservation checker on the exact rational re-solution of the emitted equations: per-currency sum dF + NET == 0 and per-sector ledgers == spec-declared flows; in-situ AddCashFlow wrapper",
         "Held on K observed models: random topologies (1-3 zones, federations, all government/household/firm forms, deposits, gifts, imports, non-unit rates) built and solved by the real code; identities are exactly zero on the Fraction solution of the emitted text. Topologies outside the spec language are not explored.", "3/C01"),
 'C04': ("market-clearing / allocation / pair identities from spec-declared participants on the exact re-solution; bookings through sector ledgers",
         "Held on K observed models: every goods, labour, money and deposit market of every generated model satisfies demand = sum of declared demanders, supply = demand, suppliers add up, participant = assigned (x cross rate), exactly.", "3/C04"),
 'C07': ("valued FX identity, per-currency NET vs declared cross-zone flows and receiver ledgers at XR_src/XR_dst on the exact re-solution; refusal twin without external sector",
         "Held on K observed multi-currency models with time-varying non-unit rates: exact FX identities and credited amounts; cross-zone specs without an external sector are refused with LogicError and no series.", "3/C07"),
 'C20': ("execute the module written by the real generator; residual monitor on its series, differential vs the in-process solver, header check",
         "Held on K observed blocks: the generated file imports and runs, its series satisfy the block equations (lags from its own k-1, exogenous as supplied) within tolerance, agree with the in-process solver started from the same k=0 values, and its table lists t first and each non-lagged variable once.", "3/C20"),
 'C15': ("one-further-step monitor after accepted steady states (real SolveStep on a deep copy, exogenous frozen), snapshot equality of solver inputs",
         "Held on K observed searches over stable/unit/unstable/oscillating linear lag systems with positive, negative and sign-changing fixed points: an accepted state moves by <= 3 tolerances in one further real step (also through the public SolveEquation path); two listed open findings (D15: a tiny non-decaying oscillation sampled at a turning point; D17: inner loops solved only to the acceptance tolerance during the search); also for re-used solver objects and with other solvers' exclusion lists edited; failures raise only NoEquilibriumError/ValueError; parser lists, exogenous series and horizon unchanged.", "3/C15"),
 'C17': ("fresh-subprocess vs long-history bitwise differential with logging/tracing/re-solve settings; re-parse key-set check",
         "Held on K observed histories: series of a target computed after drawn in-process histories (other builds, failures, unfinished builds, interleaved construction, registered logs, tracing, re-solves) are bitwise equal to a fresh interpreter's; a re-parsed solver reports exactly the new block.", "3/C17"),
 'C11': ("sweep counting by an instrumented user function, state-after-failure comparison with a cut reference run, contraction=>success, exhaustive reserved-name enumeration, ill-formed declarations",
         "Held on K observed executions: hostile systems switched on at a drawn period fail loudly within cap+1 sweeps leaving earlier periods intact; contractions (factor <= 0.8) solve within the default cap; all reserved names and ill-formed declarations are rejected before any series exists (name list enumerated completely).", "3/C11"),
 'C03': ("differential execution reduction on/off on the same text: key sets and every value for k>=0 (1e-12 acyclic, 1e-8 cyclic)",
         "Held on K observed pairs: systems with alias chains, aliases of every variable class, derived trees and initial conditions give the same series with and without reduction, also with a traced step, the initial steady-state search (to a multiple of its tolerance), registered user functions and re-used solver objects. Pairs where either run fails to converge are inconclusive.", "3/C03"),
 'C10': ("by-construction expectations on lengths, exogenous values, initial conditions, lags, time axis; rejection cases; model-level SIM builds",
         "Held on K observed solves: horizon+1 points, verbatim exogenous for list/tuple/expression/scalar, stated k=0 values, lag identity, time axis; invalid exogenous/initial values rejected.", "3/C10"),
 'C06': ("shadow-ledger reference model replayed against recorded AddCashFlow histories, exact valuations; in-situ AddCashFlow wrapper",
         "Held on K observed histories: after every registration F, INC and each flow definition of the real Sector equal a 30-line shadow ledger under exact valuations; exclusions of other sectors must not leak; model-level RegisterCashFlow histories (repeats, other income flags) accumulate in both ledgers.", "3/C06"),
 'C14': ("by-construction reference classifier vs EquationParser lists, hostile-comment differential, description differential at model level",
         "Held on K observed blocks: every generated line lands in its by-construction class with an equal-valued right-hand side, identically with hostile trailing comments; malformed lines are reported; hostile descriptions leave equations and series of book models unchanged.", "3/C14"),
 'C16': ("snapshot-before/after monitors on readers under caller-side mutation and repeated rendering; in-situ wrappers during book-model reads",
         "Held on K observed reader histories: every GetTimeSeries / GenerateCSVtext / CreateCsvString call is compared with the reference slice/table of a deep snapshot and the stored holders are compared after the call and after the caller mutates what was returned.", "3/C16"),
 'C19': ("reference renderer compared cell by cell, parse-back to format precision, row count after real solves",
         "Held on K observed holders and solves: structural equality of the rendered table with an independent reference renderer over ragged/extreme synthetic holders and 11 formats; horizon+1 rows and each series named once after real solves.", "3/C19"),
 'C02': ("post-solve residual monitor with scheme-agnostic bound, finiteness, pinned lags/exogenous, exact derived-only values; hostile overflow / inf-nan / failpoint systems",
         "Held on K observed solves: every normal return of the real solver is judged equation by equation against the submitted text by an independent evaluator; hostile systems must fail loudly or be finite and consistent. First-order bound for non-linear systems.", "3/C02"),
 'C12': ("value-preservation post-condition on AddTerm histories and create_equation_from_terms (exact valuations); in-situ AddTerm wrapper",
         "Held on K observed histories: after every AddTerm the rendered RHS compiles and equals lead + signed sum under exact valuations; term lists keep their sum and the caller's list; the same through the Sector API with the leading expression replaced mid-history. Leads with a top-level operator weaker than '+' are outside the generated class.", "3/C12"),
 'C13': ("by-construction token lists + token-stream hygiene + value preservation under non-merging maps; in-situ wrappers on the three token functions",
         "Held on K observed executions: random expressions x renaming maps (swap/cycle/chain/overlap) with expected token streams known from the generator, plus every call the book builders make, judged by wrappers. Says nothing about expression classes not generated.", "3/C13"),
}
def main():
    ids = [json.loads(l)['id'] for l in open(os.path.join(HERE, 'properties.jsonl'))]
    checks, na = [], []
    for pid in ids:
        if pid in CLAIMS and os.path.exists(os.path.join(HERE, 'vf', 'props', pid.lower() + '.py')):
            tech, text, ref = CLAIMS[pid]
            checks.append({
                'property_id': pid,
                'quick_cmd': './check %s --tier quick' % pid,
                'thorough_cmd': './check %s --tier thorough' % pid,
                'evidence_file': 'evidence/%s.json' % pid,
                'replay_cmd_template': './check %s --replay {path}' % pid,
                'engine': 'vf',
                'level_claimed': {'category': 'exploration', 'text': text, 'design_ref': 'DESIGN.md §' + ref},
                'level_note': LEVEL_NOTE,
                'technique': 'runtime monitoring: ' + tech,
            })
        else:
            na.append({'property_id': pid, 'reason': 'check not built yet (work in progress; runtime monitoring applies, see DESIGN.md)'})
    m = {
        'version': 1,
        'setup_cmd': '/venv/bin/python -m compileall -q vf >/dev/null 2>&1; /venv/bin/python -c "import sys; sys.path.insert(0, \'.\'); import vf.runner"',
        'hooks': {'guard': 'SFC_MODELS_VERIF', 'enable': 'no hooks in /repo: all observation points are public API or attribute state; monitors are installed by the harness at run time',
                  'baseline_off_cmd': 'cd /repo && /venv/bin/python -m pytest -ra -q -p no:cacheprovider --timeout=900 --continue-on-collection-errors',
                  'source_commits': [], 'add_only': True},
        'engines': [{'name': 'vf', 'path': 'vf', 'serves_properties': [c['property_id'] for c in checks],
                     'kind_free_text': 'seeded workload drivers over the real code + run-time wrapper monitors + offline checkers/reference oracles; 16-way subprocess sharding; three-valued verdicts'}],
        'checks': checks,
        'not_applicable': na,
        'notes': 'exit 0 held / 1 VIOLATION / 2 INCONCLUSIVE (required monitor counter or anchored function never reached, too few judged cases, shard failure). VERIF_SEED and VERIF_TIER honoured. Every run uses 16 worker processes, each under its own PYTHONHASHSEED, every fourth with asserts stripped (PYTHONOPTIMIZE=1); VERIF_NPROC limits how many run at a time. Known findings: known_findings.json (open entries: C15 D15 and D17; fixed entries carry the /repo commit). Seeded changes (seeded/<id>/patch.diff, demo.py, meta.json) and which checks catch them: DESIGN.md section 5; tools/reverify_seeds.py re-applies all of them.',
    }
    if not na:
        del m['not_applicable']
    json.dump(m, open(os.path.join(HERE, 'MANIFEST.json'), 'w'), indent=1)
    print('checks:', [c['property_id'] for c in checks], 'n/a:', len(na))
main()
