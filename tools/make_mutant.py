#!/usr/bin/env python3
"""tools/make_mutant.py <id> <file> <<< JSON {"old": "...", "new": "...", "props": ["C01"], "why": "..."}
Creates /verif/mutants/<id>.diff (+ .json) from a textual replacement applied to a scratch worktree of /repo HEAD."""
import json, os, subprocess, sys, tempfile
mid, path = sys.argv[1:3]
spec = json.load(sys.stdin)
V = os.path.dirname(os.path.dirname(os.path.abspath(__file__)))
d = tempfile.mkdtemp(prefix='mkmut_', dir='/tmp'); os.rmdir(d)
subprocess.check_call(['git', '-C', '/repo', 'worktree', 'add', '--detach', '-f', d, 'HEAD', '-q'])
try:
    p = os.path.join(d, path)
    s = open(p).read()
    assert s.count(spec['old']) == 1, 'old text occurs %d times' % s.count(spec['old'])
    open(p, 'w').write(s.replace(spec['old'], spec['new']))
    diff = subprocess.check_output(['git', '-C', d, 'diff']).decode()
    open(os.path.join(V, 'mutants', mid + '.diff'), 'w').write(diff)
    json.dump({'id': mid, 'file': path, 'props': spec['props'], 'why': spec.get('why', '')},
              open(os.path.join(V, 'mutants', mid + '.json'), 'w'), indent=1)
    print('wrote', mid)
finally:
    subprocess.call(['git', '-C', '/repo', 'worktree', 'remove', '--force', d])
