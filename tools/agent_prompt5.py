import sys, json
pid=sys.argv[1]
rec=[json.loads(l) for l in open('/verif/properties.jsonl') if json.loads(l)['id']==pid][0]
mech='\n'.join(' - %s (%s)' % (m['name'], m['where']) for m in rec['anchors']['mechanism'])
prop="Property %s: %s\n\nStatement: %s\n\nQuantifier: %s\n\nWhy the existing tests cannot settle it: %s\n\nWhere the code is meant to make it hold (anchors):\n%s\n" % (rec['id'],rec['title'],rec['statement'],rec['quantifier']['text'],rec['why_tests_cant'],mech)
base=open('/verif/tools/agent_prompt.py').read()
body=base[base.index('print(f"""')+len('print(f"""'):base.rindex('""")')]
text=body.replace('{pid}',pid).replace('{prop}',prop)
text=text.replace('/tmp/sa_','/tmp/sf_')
text=text.replace("Task: produce TWO independent source changes","Task (sixth round: five earlier rounds of volunteers have already tried the obvious edits and edits aimed at rarely used features, at state carried across calls or objects, at boundary values, at alternative entry points, at numerical handling, ordering, name strings and defaults. This time write the kind of slip that survives code review because it is a REFACTORING or a ROBUSTNESS IMPROVEMENT that looks behaviour-preserving: (a) extract-method / inline / reorder-statements / loop-to-comprehension / if-chain-to-dict-lookup / simplified boolean condition that drops or reorders one detail; (b) copy versus reference (deepcopy to copy, list(x) to x, returning an internal object, sharing a default); (c) exception handling that is broadened (an except that now also swallows a real error and continues with a stale or default value) or narrowed (an error that used to be reported is now lost), or an early return / continue that skips a needed step in one branch; (d) a function made more lenient about its input (accepts more spellings, normalises its argument) so that two formerly distinct inputs collide. The change must still break the property for some input while the existing tests pass): produce TWO independent source changes")
print(text)
