import sys, json
pid=sys.argv[1]
rec=[json.loads(l) for l in open('/verif/properties.jsonl') if json.loads(l)['id']==pid][0]
mech='\n'.join(' - %s (%s)' % (m['name'], m['where']) for m in rec['anchors']['mechanism'])
prop="Property %s: %s\n\nStatement: %s\n\nQuantifier: %s\n\nWhy the existing tests cannot settle it: %s\n\nWhere the code is meant to make it hold (anchors):\n%s\n" % (rec['id'],rec['title'],rec['statement'],rec['quantifier']['text'],rec['why_tests_cant'],mech)
base=open('/verif/tools/agent_prompt.py').read()
body=base[base.index('print(f"""')+len('print(f"""'):base.rindex('""")')]
text=body.replace('{pid}',pid).replace('{prop}',prop)
text=text.replace('/tmp/sa_','/tmp/sg_')
text=text.replace("Task: produce TWO independent source changes","Task (seventh round: six earlier rounds of volunteers have tried obvious edits, rarely used features, state carried across calls or objects, boundary values, alternative entry points, numerical handling, ordering, name strings, defaults, and refactoring / robustness slips. This time take one of the ANCHORED MECHANISMS listed above and make it work only PARTIALLY, in a way that depends on the shape of the model or input rather than on a single parameter value: (a) it handles the first / the last / the only element correctly but not all of several (several suppliers, several holders, several flows between the same pair, several regions, several exogenous or lagged variables, several terms); (b) it is right when two things coincide (same country, same currency, same name, same length, same sign, same order) and wrong when they differ; (c) it is right at the first period or the first sweep and drifts later (timing: current versus lagged value, k versus k-1, before versus after convergence); (d) two sites that must agree on a convention (a sign, a name format, a unit or currency, an index base) and one of them changes it. Read the existing tests first and keep what they pin down): produce TWO independent source changes")
print(text)
