"""Ambient workloads: realistic programs that already exist (book builders, example scripts)."""
import contextlib
import io
import os
import runpy
import shutil
import tempfile


def book_builders():
    from sfc_models.gl_book.chapter3 import SIM, SIMEX1
    from sfc_models.gl_book.chapter4 import PC
    from sfc_models.gl_book.chapter6 import REG, REG2
    return {'SIM': SIM, 'SIMEX1': SIMEX1, 'PC': PC, 'REG': REG, 'REG2': REG2}


def build_book(name, max_time=8, solve=True):
    cls = book_builders()[name]
    b = cls(country_code='C1')
    mod = b.build_model()
    mod.MaxTime = max_time
    if solve:
        with contextlib.redirect_stdout(io.StringIO()):
            mod.main()
    return mod


QUICK_SCRIPTS = ['intro_3_03_hello_world_1.py', 'intro_3_03_hello_world_2.py', 'intro_3_03_hello_world_3.py',
                 'intro_3_03_hello_world_4.py', 'intro_3_05_variable_names_1.py',
                 'intro_3_05_variable_names_2.py', 'intro_5_03_no_tax_SIM.py', 'intro_5_04_SIMEX1.py',
                 'intro_6_04_externalsector.py', 'ex20161103_SIM_2_country.py', 'build_SIM_model.py']


def script_dir():
    import sfc_models
    return os.path.join(os.path.dirname(sfc_models.__file__), 'examples', 'scripts')


def run_script(name):
    """Run an example script with runpy in a temporary working directory; returns (ok, err)."""
    path = os.path.join(script_dir(), name)
    tmp = tempfile.mkdtemp(prefix='vf_amb_')
    cwd = os.getcwd()
    os.makedirs(os.path.join(tmp, 'output'))
    try:
        os.chdir(tmp)
        buf = io.StringIO()
        with contextlib.redirect_stdout(buf), contextlib.redirect_stderr(buf):
            try:
                runpy.run_path(path, run_name='__main__')
            except SystemExit:
                pass
        return True, None
    except Exception as e:  # a script failing offline is not a verdict on the repository
        return False, repr(e)
    finally:
        os.chdir(cwd)
        try:
            from sfc_models.utils import Logger
            Logger.cleanup()
        except Exception:
            pass
        shutil.rmtree(tmp, ignore_errors=True)


ALL_SCRIPTS = ['SIM_Model_With_Capitalists.py', 'build_SIM_model.py', 'ex20161103_SIM_2_country.py',
               'ex20161128_tax_cut_comparison.py', 'ex20161206_SIM_with_deposits.py', 'ex20170221_Model_PC.py',
               'ex20170225_Model_REG.py', 'ex20170307_Model_REG2.py', 'ex20190131_investment_accelerator.py',
               'ex20190324_consumption_propensity.py', 'ex201904110_accelerator_gummint.py',
               'ex20190412_oscillate_wildly.py', 'intro_3_02_example.py', 'intro_3_03_hello_world_1.py',
               'intro_3_03_hello_world_2.py', 'intro_3_03_hello_world_3.py', 'intro_3_03_hello_world_4.py',
               'intro_3_05_variable_names_1.py', 'intro_3_05_variable_names_2.py', 'intro_5_03_no_tax_SIM.py',
               'intro_5_04_SIMEX1.py', 'intro_6_04_externalsector.py', 'intro_6_06_gold_standard_G.py',
               'intro_X_XX_sim_fiscal.py', 'intro_X_XX_sim_growing_fiscal.py', 'intro_X_XX_sim_multiplier.py',
               'sfcmod_external_sector.py']
FAST_SCRIPTS = ['ex20161206_SIM_with_deposits.py', 'ex20190131_investment_accelerator.py',
                'ex20190324_consumption_propensity.py', 'intro_3_02_example.py', 'intro_5_04_SIMEX1.py',
                'intro_6_04_externalsector.py', 'intro_X_XX_sim_growing_fiscal.py', 'intro_X_XX_sim_multiplier.py',
                'intro_3_05_variable_names_2.py']


def run_scripts(names, rec):
    """Run bundled example scripts (realistic programs that already exist) under whatever monitors are installed."""
    ran = []
    for n in names:
        ok, err = run_script(n)
        if ok:
            ran.append(n)
            rec.count('ambient.scripts_run')
        else:
            rec.count('ambient.script_failed')
    return ran
