"""Ambient workloads: realistic programs that already exist (book builders, example scripts)."""
import contextlib
import io
import os
import runpy
import shutil
import tempfile


def book_builders():
    from sfc_models.gl_book.chapter3 import SIM, SIMEX1
    from sfc_models.gl_book.chapter4 import PC
    from sfc_models.gl_book.chapter6 import REG, REG2
    return {'SIM': SIM, 'SIMEX1': SIMEX1, 'PC': PC, 'REG': REG, 'REG2': REG2}


def build_book(name, max_time=8, solve=True):
    cls = book_builders()[name]
    b = cls(country_code='C1')
    mod = b.build_model()
    mod.MaxTime = max_time
    if solve:
        with contextlib.redirect_stdout(io.StringIO()):
            mod.main()
    return mod


QUICK_SCRIPTS = ['intro_3_03_hello_world_1.py', 'intro_3_03_hello_world_2.py', 'intro_3_03_hello_world_3.py',
                 'intro_3_03_hello_world_4.py', 'intro_3_05_variable_names_1.py',
                 'intro_3_05_variable_names_2.py', 'intro_5_03_no_tax_SIM.py', 'intro_5_04_SIMEX1.py',
                 'intro_6_04_externalsector.py', 'ex20161103_SIM_2_country.py', 'build_SIM_model.py']


def script_dir():
    import sfc_models
    return os.path.join(os.path.dirname(sfc_models.__file__), 'examples', 'scripts')


def run_script(name):
    """Run an example script with runpy in a temporary working directory; returns (ok, err)."""
    path = os.path.join(script_dir(), name)
    tmp = tempfile.mkdtemp(prefix='vf_amb_')
    cwd = os.getcwd()
    os.makedirs(os.path.join(tmp, 'output'))
    try:
        os.chdir(tmp)
        buf = io.StringIO()
        with contextlib.redirect_stdout(buf), contextlib.redirect_stderr(buf):
            try:
                runpy.run_path(path, run_name='__main__')
            except SystemExit:
                pass
        return True, None
    except Exception as e:  # a script failing offline is not a verdict on the repository
        return False, repr(e)
    finally:
        os.chdir(cwd)
        try:
            from sfc_models.utils import Logger
            Logger.cleanup()
        except Exception:
            pass
        shutil.rmtree(tmp, ignore_errors=True)


ALL_SCRIPTS = ['SIM_Model_With_Capitalists.py', 'build_SIM_model.py', 'ex20161103_SIM_2_country.py',
               'ex20161128_tax_cut_comparison.py', 'ex20161206_SIM_with_deposits.py', 'ex20170221_Model_PC.py',
               'ex20170225_Model_REG.py', 'ex20170307_Model_REG2.py', 'ex20190131_investment_accelerator.py',
               'ex20190324_consumption_propensity.py', 'ex201904110_accelerator_gummint.py',
               'ex20190412_oscillate_wildly.py', 'intro_3_02_example.py', 'intro_3_03_hello_world_1.py',
               'intro_3_03_hello_world_2.py', 'intro_3_03_hello_world_3.py', 'intro_3_03_hello_world_4.py',
               'intro_3_05_variable_names_1.py', 'intro_3_05_variable_names_2.py', 'intro_5_03_no_tax_SIM.py',
               'intro_5_04_SIMEX1.py', 'intro_6_04_externalsector.py', 'intro_6_06_gold_standard_G.py',
               'intro_X_XX_sim_fiscal.py', 'intro_X_XX_sim_growing_fiscal.py', 'intro_X_XX_sim_multiplier.py',
               'sfcmod_external_sector.py']
FAST_SCRIPTS = ['ex20161206_SIM_with_deposits.py', 'ex20190131_investment_accelerator.py',
                'ex20190324_consumption_propensity.py', 'intro_3_02_example.py', 'intro_5_04_SIMEX1.py',
                'intro_6_04_externalsector.py', 'intro_X_XX_sim_growing_fiscal.py', 'intro_X_XX_sim_multiplier.py',
                'intro_3_05_variable_names_2.py']


def run_scripts(names, rec):
    """Run bundled example scripts (realistic programs that already exist) under whatever monitors are installed."""
    ran = []
    for n in names:
        ok, err = run_script(n)
        if ok:
            ran.append(n)
            rec.count('ambient.scripts_run')
        else:
            rec.count('ambient.script_failed')
    return ran


POISON_NAMES = ['x0', 'x1', 'x2', 'total', 'neg', 'bal', 'YY', 'CC', 'x', 'y', 'F', 'HH__F', 'zc_report']


def prehistory(idx):
    """Unrelated, legitimate use of the package earlier in the same process: other solvers with their own user functions
    and in-place edited parameter lists, other parsers, holders on other time axes, half-built models, callers that
    mutate lists the package returned.  None of it may influence what a later, separate object computes; it is run
    before a fixed share of the cases of EVERY check (state carried across objects or calls is a recurring way to
    break any of the properties)."""
    import contextlib, io
    from sfc_models.equation_solver import EquationSolver
    from sfc_models.equation_parser import EquationParser
    from sfc_models.equation import Equation, Term
    from sfc_models.utils import TimeSeriesHolder
    from sfc_models import utils
    from sfc_models.models import Model, Country
    from sfc_models.sector import Sector, Market
    from sfc_models.sector_definitions import Household
    done = 0
    with contextlib.redirect_stdout(io.StringIO()):
        try:
            o = EquationSolver('x = 0.5*LAG_x + half(y) + 1\ny = 0.25*x\nLAG_x = x(k-1)\nd = log(2.0) + x\nMaxTime = 2\nErr_Tolerance = 0.05')
            for nm in ('half', 'log', 'uf', 'myfn', 'f2', 'damp'):
                o.AddFunction(nm, lambda *a: -7.0)
            for attr, val in list(vars(o).items()):
                if attr.startswith('Parameter') and isinstance(val, list):
                    val += POISON_NAMES            # in-place edit of THIS solver's own list
            o.ParameterSolveInitialSteadyState = True
            o.ParameterInitialSteadyStateMaxTime = 5
            o.TraceStep = 1
            try:
                o.SolveEquation()
            except Exception:
                pass
            o.ParseString('t = k + 1990.\nq = 0.5*q + g\nMaxTime = 3\nexogenous\ng = [1.]*6')
            o.SolveEquation()
            done += 1
        except Exception:
            pass
        try:
            p = EquationParser()
            p.ParseString('t = k + 5\nw = 0.5*w + g # exogenous word in a comment\nMaxTime = 4\nexogenous\ng = [1.]*6')
            p.ParseString('w = 1')
            for f in (utils.get_invalid_tokens, utils.get_invalid_variable_names):
                lst = f()
                if isinstance(lst, list):
                    del lst[:]                      # a caller may do what it likes with a list it was handed
                elif isinstance(lst, set):
                    lst.clear()
            done += 1
        except Exception:
            pass
        try:
            for axis in ('year', 'x', 'F', 'k'):
                h = TimeSeriesHolder(axis)
                h[axis] = [1.0, 2.0]
                h['zz'] = [3.0, 4.0]
                h.GenerateCSVtext()
                lst = h.GetSeriesList()
                if isinstance(lst, list):
                    del lst[:]
            done += 1
        except Exception:
            pass
        try:
            t = Term('a*b')
            e = Equation('v', 'd', [Term('2*(a-b)', is_blob=True), t])
            e.AddTerm(t)
            e.AddTerm('-a/b')
            e.ReplaceTokensFromLookup({'a': 'b', 'b': 'a'})
            e.ReplaceTokensFromLookup({'a': 'c'})
            str(e)
            done += 1
        except Exception:
            pass
        try:
            m = Model()
            c = Country(m, 'PH', 'prehistory')
            hh = Household(c, 'HH', 'hh')
            hh.GetVariableName('F')
            Market(c, 'GOOD', 'good')
            s = Sector(c, 'S', 's')
            s.AddVariable('W', 'w', '1.0')
            s.AddCashFlow('W')
            s.AddCashFlow('-W')
            s.EquationBlock['F'].RHS()
            m.AddCashFlowIncomeExclusion(s, 'W')
            m.RegisterCashFlow(s, hh, 'W')
            c.CurrencyZone.GetSectors()
            m.GetSectors()
            done += 1
        except Exception:
            pass
        if idx % 9 == 1:
            try:
                build_book('SIM', max_time=2)
                done += 1
            except Exception:
                pass
    return done
