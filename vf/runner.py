"""Common driver: seeds, sharding, watchdogs, evidence, replays, known-findings gate.

A property module (vf.props.cNN) exposes an object PROP with

    id, title, rule, assumptions
    n_cases(tier)                 -> int
    make_case(rng, idx, tier)     -> JSON-serialisable dict (the whole input of one execution)
    run_case(case)                -> dict:
        verdict      'held' | 'violated' | 'inconclusive' | 'notjudged'
        nontrivial   bool   (by the property's stated rule)
        evals        int    (executions of the real code judged inside this case, default 1)
        keys         list   (hashes of distinct non-trivial sub-cases; default [hash(case)])
        shape        str    (histogram bucket)
        counters     dict   name -> int  (monitor counters: calls seen, post-conditions evaluated, ...)
        violations   list of {'kind','mechanism','detail'}
        obs          anything small that shows what was observed
    required_counters             -> names that must be > 0 over the run, else INCONCLUSIVE
    min_judged_fraction           -> default 0.5

Exit codes: 0 held on everything explored, 1 violation (VIOLATION line), 2 inconclusive.
"""
import argparse
import hashlib
import importlib
import json
import os
import random
import shutil
import signal
import subprocess
import sys
import tempfile
import time
import traceback

VERIF = os.path.dirname(os.path.dirname(os.path.abspath(__file__)))
CASE_TIMEOUT = int(os.environ.get('VERIF_CASE_TIMEOUT', '120'))
SHARD_TIMEOUT = {'quick': 900, 'thorough': 6 * 3600}
NPROC = int(os.environ.get('VERIF_NPROC', str(min(16, os.cpu_count() or 4))))


class Watchdog(BaseException):
    """Raised by the per-case alarm.  BaseException so that the code under test's
    `except Exception`/bare `except:` clauses are less likely to swallow it."""


def _alarm(signum, frame):
    raise Watchdog()


def chash(obj):
    return hashlib.sha1(json.dumps(obj, sort_keys=True, default=repr).encode()).hexdigest()[:16]


def case_rng(prop_id, seed, idx):
    return random.Random('%s:%d:%d' % (prop_id, seed, idx))


def load_prop(prop_id):
    mod = importlib.import_module('vf.props.' + prop_id.lower())
    return mod.PROP


def run_one(prop, case):
    """Run one case under the watchdog; a crash of the monitor itself is never a violation."""
    old = signal.signal(signal.SIGALRM, _alarm)
    signal.alarm(CASE_TIMEOUT)
    t0 = time.time()
    try:
        res = prop.run_case(case)
    except Watchdog:
        res = {'verdict': 'inconclusive', 'reason': 'watchdog %ds' % CASE_TIMEOUT}
    except Exception:
        res = {'verdict': 'inconclusive', 'reason': 'monitor_error',
               'trace': traceback.format_exc()[-2000:]}
    finally:
        signal.alarm(0)
        signal.signal(signal.SIGALRM, old)
    res.setdefault('nontrivial', False)
    res.setdefault('evals', 1)
    res.setdefault('violations', [])
    res.setdefault('counters', {})
    res.setdefault('shape', '-')
    if 'keys' not in res:
        res['keys'] = [chash(case)] if res['nontrivial'] else []
    res['wall'] = round(time.time() - t0, 4)
    return res


class AnchorProbe(object):
    """sys.monitoring PY_START probe: which functions of the repository package were entered.
    Each code object reports once and is then DISABLEd, so the overhead is negligible."""

    def __init__(self, root):
        self.root = os.path.join(root, 'sfc_models') + os.sep
        self.entered = set()
        self.tool = None

    def start(self):
        mon = getattr(sys, 'monitoring', None)
        if mon is None:
            return
        try:
            self.tool = mon.PROFILER_ID
            mon.use_tool_id(self.tool, 'vf-anchor-probe')
        except Exception:
            self.tool = None
            return

        def on_start(code, offset):
            fn = code.co_filename
            if fn.startswith(self.root):
                self.entered.add(fn[len(self.root):] + ':' + code.co_qualname)
            return mon.DISABLE
        mon.register_callback(self.tool, mon.events.PY_START, on_start)
        mon.set_events(self.tool, mon.events.PY_START)

    def stop(self):
        mon = getattr(sys, 'monitoring', None)
        if mon is None or self.tool is None:
            return
        try:
            mon.set_events(self.tool, 0)
            mon.register_callback(self.tool, mon.events.PY_START, None)
            mon.free_tool_id(self.tool)
        except Exception:
            pass


def worker(args):
    from vf import repo
    repo.activate()
    probe = AnchorProbe(repo.REPO)
    probe.start()
    prop = load_prop(args.prop)
    n = prop.n_cases(args.tier)
    agg = new_agg()
    t0 = time.time()
    for idx in range(n):
        # case -> worker: rotated by one for every block of nshards cases, so that a sub-class that sits on fixed residues of
        # the case index still meets every worker environment (hash seed, asserts on/off) in turn
        if (idx + idx // args.nshards) % args.nshards != args.shard:
            continue
        rng = case_rng(prop.id, args.seed, idx)
        try:
            case = prop.make_case(rng, idx, args.tier)
        except Exception:
            agg['verdicts']['inconclusive'] = agg['verdicts'].get('inconclusive', 0) + 1
            agg['inconclusive'].append({'idx': idx, 'reason': 'generator_error',
                                        'trace': traceback.format_exc()[-1500:]})
            continue
        pre = None
        if idx % 3 == 1 and os.environ.get('VERIF_NO_PREHISTORY') != '1':
            try:
                from vf import ambient
                pre = ambient.prehistory(idx)
            except Exception:
                pre = None
        res = run_one(prop, case)
        if pre is not None:
            res['counters']['prehistory.cases'] = res['counters'].get('prehistory.cases', 0) + 1
            res['counters']['prehistory.steps_done'] = res['counters'].get('prehistory.steps_done', 0) + pre
        merge_case(agg, idx, case, res)
    probe.stop()
    agg['counters']['worker_processes_each_with_its_own_hash_seed'] = agg['counters'].get('worker_processes_each_with_its_own_hash_seed', 0) + 1
    if not __debug__:
        agg['counters']['worker_processes_with_asserts_stripped'] = agg['counters'].get('worker_processes_with_asserts_stripped', 0) + 1
    agg['entered'] = sorted(probe.entered)
    agg['wall'] = time.time() - t0
    agg['keys'] = sorted(agg['keys'])
    with open(args.out, 'w') as f:
        json.dump(agg, f, default=repr)


def new_agg():
    return {'cases': 0, 'evals': 0, 'keys': set(), 'verdicts': {}, 'shapes': {}, 'counters': {},
            'samples': [], 'violations': [], 'inconclusive': [], 'worst': {}, 'notes': {}, 'entered': []}


def merge_case(agg, idx, case, res):
    agg['cases'] += 1
    agg['evals'] += int(res['evals'])
    agg['keys'].update(res['keys'])
    v = res['verdict']
    agg['verdicts'][v] = agg['verdicts'].get(v, 0) + 1
    agg['shapes'][res['shape']] = agg['shapes'].get(res['shape'], 0) + 1
    for k, n in res['counters'].items():
        agg['counters'][k] = agg['counters'].get(k, 0) + n
    for k, x in res.get('worst', {}).items():
        if x is not None and (k not in agg['worst'] or x > agg['worst'][k]):
            agg['worst'][k] = x
    for k, x in res.get('notes', {}).items():
        agg['notes'][k] = agg['notes'].get(k, 0) + x
    if len(agg['samples']) < 2 and v in ('held', 'violated') and res['nontrivial']:
        agg['samples'].append({'idx': idx, 'case': case, 'observed': res.get('obs'),
                               'verdict': v})
    if v == 'violated' and len(agg['violations']) < 40:
        agg['violations'].append({'idx': idx, 'case': case, 'violations': res['violations'][:5],
                                  'observed': res.get('obs'), 'hashseed': os.environ.get('PYTHONHASHSEED'),
                                  'optimize': os.environ.get('PYTHONOPTIMIZE') or ''})
    if v == 'inconclusive' and len(agg['inconclusive']) < 10:
        agg['inconclusive'].append({'idx': idx, 'reason': res.get('reason'),
                                    'trace': res.get('trace')})


def merge_aggs(aggs):
    tot = new_agg()
    for a in aggs:
        tot['cases'] += a['cases']
        tot['evals'] += a['evals']
        tot['keys'].update(a['keys'])
        for fld in ('verdicts', 'shapes', 'counters', 'notes'):
            for k, n in a[fld].items():
                tot[fld][k] = tot[fld].get(k, 0) + n
        for k, x in a['worst'].items():
            if k not in tot['worst'] or x > tot['worst'][k]:
                tot['worst'][k] = x
        tot['entered'] = sorted(set(tot['entered']) | set(a.get('entered', [])))
        tot['samples'].extend(a['samples'])
        tot['violations'].extend(a['violations'])
        tot['inconclusive'].extend(a['inconclusive'])
    tot['samples'].sort(key=lambda s: s['idx'])
    tot['violations'].sort(key=lambda s: s['idx'])
    return tot


def load_known():
    path = os.path.join(VERIF, 'known_findings.json')
    try:
        with open(path) as f:
            return json.load(f)
    except FileNotFoundError:
        return []


def trim(obj, limit=6000):
    s = json.dumps(obj, default=repr)
    if len(s) <= limit:
        return json.loads(s)
    return {'truncated_json': s[:limit]}


def main(argv=None):
    ap = argparse.ArgumentParser()
    ap.add_argument('prop')
    ap.add_argument('--tier', default=os.environ.get('VERIF_TIER', 'quick'),
                    choices=['quick', 'thorough'])
    ap.add_argument('--seed', type=int, default=int(os.environ.get('VERIF_SEED', '0') or 0))
    ap.add_argument('--replay')
    ap.add_argument('--worker', action='store_true')
    ap.add_argument('--shard', type=int, default=0)
    ap.add_argument('--nshards', type=int, default=1)
    ap.add_argument('--out')
    ap.add_argument('--inline', action='store_true', help='no subprocess shards (debugging)')
    args = ap.parse_args(argv)
    args.prop = args.prop.upper()
    if args.worker:
        worker(args)
        return 0
    from vf import repo
    repo.activate()
    prop = load_prop(args.prop)
    if args.replay:
        return replay(prop, args)
    t0 = time.time()
    n = prop.n_cases(args.tier)
    # the number of worker processes (= interpreter environments, see below) does not depend on the machine: 16 (fewer only for
    # tiny runs); VERIF_NPROC merely limits how many of them run at the same time
    nshards = max(1, min(16, getattr(prop, 'max_shards', 16), n))
    aggs = []
    shard_failures = []
    if args.inline:
        ns = argparse.Namespace(**vars(args))
        tmp = tempfile.mkdtemp(prefix='vf_')
        ns.out = os.path.join(tmp, 'o.json')
        ns.shard, ns.nshards = 0, 1
        worker(ns)
        aggs.append(json.load(open(ns.out)))
        shutil.rmtree(tmp, ignore_errors=True)
    else:
        tmp = tempfile.mkdtemp(prefix='vf_')
        procs = []
        env = dict(os.environ)
        env['PYTHONPATH'] = VERIF + os.pathsep + env.get('PYTHONPATH', '')
        for s in range(nshards):
            # every worker process runs under its own (fixed) string-hash seed: results that depend on the iteration order of
            # sets of names show up as differences between cases instead of staying invisible under one lucky seed
            # ... and every fourth worker with assert statements stripped (python -O): a rejection that only an assert performs
            # is no rejection for a user who runs optimised
            env = dict(env, PYTHONHASHSEED=str(s), PYTHONOPTIMIZE=('1' if s % 4 == 3 else ''))
            out = os.path.join(tmp, 'shard%d.json' % s)
            cmd = [sys.executable, '-m', 'vf.runner', args.prop, '--worker', '--tier', args.tier,
                   '--seed', str(args.seed), '--shard', str(s), '--nshards', str(nshards),
                   '--out', out]
            log = open(os.path.join(tmp, 'shard%d.log' % s), 'w')
            while sum(1 for _, _, p_, _ in procs if p_.poll() is None) >= max(1, NPROC):
                time.sleep(0.05)
            procs.append((s, out, subprocess.Popen(cmd, env=env, cwd=tmp, stdout=log,
                                                   stderr=subprocess.STDOUT), log))
        deadline = time.time() + SHARD_TIMEOUT[args.tier]
        for s, out, p, log in procs:
            try:
                p.wait(timeout=max(1, deadline - time.time()))
            except subprocess.TimeoutExpired:
                p.kill()
                p.wait()
                shard_failures.append('shard %d: timeout' % s)
                continue
            finally:
                log.close()
            if p.returncode != 0 or not os.path.exists(out):
                tail = open(os.path.join(tmp, 'shard%d.log' % s)).read()[-1500:]
                shard_failures.append('shard %d: exit %s: %s' % (s, p.returncode, tail))
                continue
            aggs.append(json.load(open(out)))
        shutil.rmtree(tmp, ignore_errors=True)
    tot = merge_aggs(aggs)
    return conclude(prop, args, tot, shard_failures, time.time() - t0, n)


def gate(prop_id, violations):
    """Split violations into known findings (open entries only) and new ones."""
    known = [k for k in load_known() if k.get('property') == prop_id and k.get('status') == 'open']
    open_keys = {k['key']: k for k in known}
    new, old = [], {}
    for v in violations:
        mechs = [x.get('mechanism') for x in v['violations']]
        if mechs and all(m in open_keys for m in mechs):
            for m in set(mechs):
                old.setdefault(m, []).append(v)
        else:
            new.append(v)
    return new, old, open_keys


def conclude(prop, args, tot, shard_failures, wall, n_planned):
    from vf import repo
    pid = prop.id
    new, old, open_keys = gate(pid, tot['violations'])
    judged = tot['verdicts'].get('held', 0) + tot['verdicts'].get('violated', 0)
    reasons = []
    if shard_failures:
        reasons.append('shard failures: ' + '; '.join(shard_failures)[:600])
    if tot['cases'] < n_planned:
        reasons.append('only %d of %d planned cases ran' % (tot['cases'], n_planned))
    frac = getattr(prop, 'min_judged_fraction', 0.5)
    if tot['cases'] == 0 or judged < frac * tot['cases']:
        reasons.append('judged %d of %d cases (< %.0f%%)' % (judged, tot['cases'], frac * 100))
    for c in getattr(prop, 'required_counters', ()):
        if tot['counters'].get(c, 0) <= 0:
            reasons.append('monitor counter %s never incremented' % c)
    if len(tot['keys']) < 2:
        reasons.append('fewer than 2 distinct non-trivial cases')
    entered_q = set(e.split(':', 1)[1] for e in tot.get('entered', []))
    anchors = list(getattr(prop, 'anchors', ()))
    missing_anchors = [a for a in anchors if a not in entered_q]
    if missing_anchors and tot.get('entered'):
        reasons.append('anchored functions never entered: %s' % ', '.join(missing_anchors))
    n_other_inc = tot['verdicts'].get('inconclusive', 0)
    n_mon_err = sum(1 for i in tot['inconclusive'] if i.get('reason') in ('monitor_error',
                                                                            'generator_error'))
    if n_mon_err:
        reasons.append('%d monitor/generator errors (first: %s)' % (
            n_mon_err, (tot['inconclusive'][0].get('trace') or '')[-400:]))
    replay_paths = []
    for v in new[:10]:
        d = os.path.join(os.environ.get('VERIF_REPLAY_DIR') or os.path.join(VERIF, 'replays'), pid)
        os.makedirs(d, exist_ok=True)
        path = os.path.join(d, '%s_s%d_i%d.json' % (args.tier, args.seed, v['idx']))
        with open(path, 'w') as f:
            json.dump({'property': pid, 'seed': args.seed, 'tier': args.tier, 'idx': v['idx'],
                       'case': v['case'], 'violations': v['violations'], 'hashseed': v.get('hashseed'), 'optimize': v.get('optimize', ''),
                       'observed': v.get('observed'), 'repo': repo.REPO}, f, indent=1, default=repr)
        replay_paths.append(path)
    samples = [trim(s) for s in tot['samples'][:4]]
    if not samples and tot['violations']:
        samples = [trim(tot['violations'][0])]
    cov = {
        'evaluations': tot['evals'],
        'cases': tot['cases'],
        'distinct_nontrivial': len(tot['keys']),
        'rule': prop.rule,
        'samples': samples,
        'exhaustive': bool(getattr(prop, 'exhaustive', False)),
        'verdicts': tot['verdicts'],
        'shape_histogram': dict(sorted(tot['shapes'].items(), key=lambda kv: -kv[1])[:60]),
        'monitor_counters': tot['counters'],
        'worst_observed': tot['worst'],
        'notes': tot['notes'],
        'known_findings_observed': {k: len(v) for k, v in old.items()},
        'new_violations': len(new),
        'anchor_functions_expected': anchors,
        'anchor_functions_reached': [a for a in anchors if a in entered_q],
        'repo_functions_entered': len(tot.get('entered', [])),
        'inconclusive_cases': tot['verdicts'].get('inconclusive', 0),
        'inconclusive_reasons': reasons,
        'sfc_models_origin': repo.origin(),
        'verdict': 'violated' if new else ('inconclusive' if reasons else 'held'),
    }
    ev = {'property_id': pid, 'tier': args.tier, 'seed': args.seed, 'level': 'exploration',
          'coverage': cov, 'assumptions': list(prop.assumptions), 'wall_s': round(wall, 2),
          'violations': len(new)}
    evdir = os.environ.get('VERIF_EVIDENCE_DIR') or os.path.join(VERIF, 'evidence')
    os.makedirs(evdir, exist_ok=True)
    if os.environ.get('VERIF_DUMP_ENTERED'):
        with open(os.path.join(os.environ['VERIF_DUMP_ENTERED'], pid + '.entered.json'), 'w') as f:
            json.dump(tot.get('entered', []), f)
    with open(os.path.join(evdir, pid + '.json'), 'w') as f:
        json.dump(ev, f, indent=1, default=repr)
    print('%s tier=%s seed=%d cases=%d evaluations=%d distinct_nontrivial=%d verdicts=%s wall=%.1fs'
          % (pid, args.tier, args.seed, tot['cases'], tot['evals'], len(tot['keys']),
             tot['verdicts'], wall))
    print('monitor counters: %s' % json.dumps(tot['counters'], sort_keys=True))
    if tot['worst']:
        print('worst observed: %s' % json.dumps(tot['worst'], sort_keys=True, default=repr))
    for k, vs in old.items():
        print('KNOWN-FINDING: property=%s %s [%s; %d witnesses this run]' % (
            pid, open_keys[k]['what_fails'], k, len(vs)))
    for path, v in zip(replay_paths, new):
        first = v['violations'][0] if v['violations'] else {}
        print('VIOLATION property=%s replay=%s' % (pid, path))
        print('  kind=%s detail=%s' % (first.get('kind'), str(first.get('detail'))[:400]))
    if len(new) > len(replay_paths):
        print('  (+%d more violating cases)' % (len(new) - len(replay_paths)))
    if new:
        return 1
    if reasons:
        print('INCONCLUSIVE property=%s reason=%s' % (pid, ' | '.join(reasons)))
        return 2
    return 0


def replay(prop, args):
    with open(args.replay) as f:
        rp = json.load(f)
    case = rp['case']
    if ((rp.get('hashseed') not in (None, os.environ.get('PYTHONHASHSEED')) or
         (rp.get('optimize') or '') != (os.environ.get('PYTHONOPTIMIZE') or '')) and os.environ.get('VF_REPLAY_REEXEC') != '1'):
        # the case was observed in a worker with another string-hash seed / with asserts stripped: replay it the same way
        env = dict(os.environ, PYTHONHASHSEED=str(rp.get('hashseed') or 0), PYTHONOPTIMIZE=(rp.get('optimize') or ''),
                   VF_REPLAY_REEXEC='1')
        os.execve(sys.executable, [sys.executable, '-m', 'vf.runner'] + sys.argv[1:], env)
    res = run_one(prop, case)
    print(json.dumps({'verdict': res['verdict'], 'violations': res['violations'],
                      'obs': res.get('obs'), 'reason': res.get('reason'),
                      'trace': res.get('trace')}, indent=1, default=repr)[:8000])
    if res['verdict'] == 'violated':
        new, old, open_keys = gate(prop.id, [{'idx': rp.get('idx', -1), 'case': case,
                                              'violations': res['violations']}])
        if new:
            print('VIOLATION property=%s replay=%s' % (prop.id, args.replay))
            return 1
        for k in old:
            print('KNOWN-FINDING: property=%s %s' % (prop.id, open_keys[k]['what_fails']))
        return 0
    return 0 if res['verdict'] in ('held', 'notjudged') else 2


if __name__ == '__main__':
    sys.exit(main())
