"""C02 - whatever the solver returns satisfies the submitted equations."""
import contextlib
import io
import math

from vf.gen import eqsys as G
from vf.oracle import block as B

HOSTILE = [
    # (block text, why a normal return is impossible or must still be finite+consistent)
    ('x = x*x + 2\nMaxTime = 3\nErr_Tolerance=1e-6', 'no real fixed point; iterates overflow'),
    ('x = 3*x + 1e300\nMaxTime = 2', 'iterates overflow to inf'),
    ('x = 2*y + 1\ny = 2*x + 1e200\nMaxTime = 2', 'expansive pair overflows'),
    ('x = x*x*1e200 + 1\ny = 0.5*x\nMaxTime = 2', 'overflow in one sweep'),
    ('x = 1e308*y*10\ny = 0.5*y + 1\nMaxTime = 3', 'inf in a dependent variable while y converges'),
    ('y = 0.5*y + 1\nd = 1e308*y*10\nMaxTime = 3', 'derived-only variable overflows to inf'),
    ('x = -2*x*x - 3\nMaxTime = 2', 'diverges to -inf'),
    ('x = x + y\ny = 0.5*y + 1\nMaxTime = 3', 'x has no fixed point (drift)'),
    ('c = 1/s\ns = 0.0*y\ny = 0.5*y + 1\nMaxTime = 2', 'persistent division by zero; failing equation first'),
    ('y = 0.5*y + 1\nc = log10(s)\ns = y - y\nz = c + y\nMaxTime = 2', 'persistent log10(0); failing equation in the middle'),
    ('cover = service/surplus\nservice = 0.5*service + 1\nsurplus = service - service\nw = 0.25*w + cover\nMaxTime = 3',
     'persistent division by an exact zero; later equations evaluate cleanly'),
    ('a = 0.5*a + 1\nb = sqrt(-a)\nc = 0.5*c + a\nMaxTime = 2', 'persistent math domain error in the middle'),
]


# derived-only variables whose value is NaN although everything they depend on converged to finite values
NAN_DERIVED = [
    ('y = 0.5*y + 1\nshare = (1e308*y*10)/(1e308*y*20)\nMaxTime = 3', 'inf/inf in a derived-only variable', False),
    ('y = 0.5*y + 1\nd = 1e308*y*10 - 1e308*y*10\nw = 0.5*w + y\nMaxTime = 3', 'inf - inf in a derived-only variable', False),
    ('y = 0.5*y + 1\nd = 0*(1e308*y*10)\nMaxTime = 2', '0*inf in a derived-only variable', False),
    ('x = 0.5*y + 1\ny = 0.25*x + 1\nz = myfn(x)\nMaxTime = 3', 'a user function returning NaN feeds a derived-only variable', True),
    ('x = 0.5*y + 1\ny = 0.25*x + 1\nz = myfn(x)\nzz = z\nMaxTime = 3', 'NaN from a user function behind an alias', True),
]


def fp_inf_after(n):
    state = {'n': 0}

    def f(x):
        state['n'] += 1
        return float('inf') if state['n'] > n else 0.5 * x + 1
    return f


def fp_nan(x):
    return float('nan')


def fp_raise_first(n, exc):
    state = {'n': 0}

    def f(x):
        state['n'] += 1
        if state['n'] <= n:
            raise exc('failpoint %d' % state['n'])
        return 0.25 * x + 1.0
    return f


class C02(object):
    id = 'C02'
    anchors = ('EquationSolver.SolveEquation', 'EquationSolver._SolveStep', 'EquationParser.EquationReduction')
    title = 'Whatever the solver returns satisfies the submitted equations'
    rule = ('one case = one equation system solved by the real EquationSolver.SolveEquation() under a drawn '
            'configuration (reduction on/off, step trace on/off, tolerance 1e-12..1e-1 via the parameter or the '
            'Err_Tolerance line, iteration cap); classes: affine contractions (factor 0.05-0.95, constants 1e-6..1e3), '
            'mildly non-linear, acyclic, with lags/exogenous/alias chains/decorative trees/initial conditions, '
            'hostile overflow systems, user functions returning inf/nan, failpoint functions raising for the '
            'first n sweeps; on normal return the offline residual monitor judges every equation of the submitted '
            'text for every k>=1; distinct = hash of the case; non-trivial = normal return with >= 1 simultaneous '
            'equation judged (hostile: any loud or judged outcome)')
    assumptions = ['residual bound 2*(1+|J_i|_1)*tol*S + 1e-12*S is scheme-agnostic (Jacobi, damped Jacobi, Gauss-Seidel)',
                   'non-linear systems only with tol <= 1e-2 (first-order bound)',
                   'derived-only exactness is demanded only with reduction on and only for variables that a '
                   'conservative independent graph analysis of the submitted text proves unreferenced']
    required_counters = ('equations_judged', 'exact_judged', 'lag_judged', 'hostile.loud', 'failpoint.recovered',
                         'model_level.judged', 'rival_user_function.cases', 'solver_reused_for_variant.cases',
                         'solver_reused_after_coarser_block.cases', 'route.constructor', 'route.manual_steps',
                         'zero_tolerance_requested.cases',
                         'retry_after_failed_solve.cases',
                         'hostile.derived_only_nan.cases',
                         'steady_state_option_then_shock.cases',
                         'malformed_line.judged',
                         'solver_reused_after_coarser_block.this_block_leaves_accuracy_to_the_default',
                         'mirror_image_alias_as_power_base.cases')

    def n_cases(self, tier):
        return 400 if tier == 'quick' else 40000

    def make_case(self, rng, idx, tier):
        if idx % 40 == 39:
            from vf.gen import modelspec as M
            return {'kind': 'model', 'spec': M.gen_spec(rng, n_zones=rng.choice([1, 2]), maxtime=rng.randint(2, 4)),
                    'reduction': True}
        if idx % 20 == 1:
            # lines with a lag INSIDE an expression (not offered by the block language) next to a well-formed system
            lines = ['h = 0.5*LAG_h + g', 'LAG_h = h(k-1)', 'w = 0.25*w + h', 'MaxTime = 4', 'exogenous', 'g = [1.0, 2.0, 4.0, 3.0, 5.0, 5.0]']
            bad = [['dh = h(k-1) + 1.5', 'z = h(k-1)*0.5', 'q = w(k-1) - h', 'dd = h(k-1)+w(k-1)', 'e2 = h(k-1) ** 2'][(idx // 20 + j_) % 5] for j_ in range(2)]
            pos = rng.randint(0, 3)
            lines[pos:pos] = bad
            return {'kind': 'hostile', 'block': '\n'.join(lines), 'why': 'lines with a lag inside an expression', 'reduction': rng.random() < 0.5,
                    'cap': 400, 'tol': None}
        if idx % 20 in (6, 11):
            h = (idx // 20) % len(NAN_DERIVED)
            return {'kind': 'hostile', 'block': NAN_DERIVED[h][0], 'why': NAN_DERIVED[h][1], 'fn_nan': NAN_DERIVED[h][2],
                    'nan_derived': True, 'reduction': True, 'cap': 400, 'tol': None}
        if idx % 20 == 16:
            # the steady-state option together with an exogenous shock and a feedback loop; the accuracy is requested by the
            # Err_Tolerance line of the block (not by the solver parameter): every period of the main run must meet it
            a1, a2, th = rng.choice([0.6, 0.7]), rng.choice([0.3, 0.4]), rng.choice([0.2, 0.25])
            T = rng.randint(5, 9)
            g0, g1 = float(rng.randint(15, 25)), float(rng.randint(26, 40))
            s_ = rng.randint(2, T - 1)
            gpath = [g0] * s_ + [g1] * (T + 2 - s_)
            tol = rng.choice([1e-9, 1e-10, 1e-11])
            text = ('y = c + g\nc = %r*yd + %r*LAG_h\nyd = y - tx\ntx = %r*y\nh = LAG_h + yd - c\nLAG_h = h(k-1)\nd = y - c\n'
                    'h(0) = %r\nMaxTime = %d\nErr_Tolerance = %r\nexogenous\ng = %r' % (a1, a2, th, float(rng.randint(10, 80)), T, tol, gpath))
            return {'kind': 'steady_then_shock', 'text': text, 'maxtime': T, 'g': gpath, 'tol': tol, 'reduction': rng.random() < 0.5,
                    'search_tol': rng.choice([1e-4, 1e-3])}
        if idx % 20 == 13:
            # a job that FAILS at a later period (too few sweeps for the shock), after which the caller gives the same solver
            # object more sweeps and solves again: what it then returns is judged like any other normal return
            g0, g1 = rng.choice([5.0, 10.0, 20.0]), rng.choice([1.0, 40.0, 80.0])
            T = rng.randint(3, 8)
            s_ = rng.randint(2, T)
            # small movements before the shock (so that every period has its own lagged values), a large one at s_
            gpath = [g0 + 0.001 * j for j in range(s_)] + [g1] * (T + 1 - s_) + [g1] * rng.randint(0, 2)
            text = ('x = 0.5*cnt(y, k) + g\ny = 0.5*x + 0.25*LAG_x\nLAG_x = x(k-1)\nd = x + y\nw = 0.5*w + 0.125*LAG_x + 1.0\n'
                    'x(0) = %r\ny(0) = %r\nw(0) = %r\nMaxTime = %d\nErr_Tolerance = 1e-9\nexogenous\ng = %r'
                    % (1.6 * g0, 1.2 * g0, 2.0 + 0.4 * g0, T, gpath))
            return {'kind': 'retry', 'text': text, 'shock_at': s_, 'maxtime': T, 'g': gpath, 'tol': 1e-9,
                    'first_cap': rng.choice([3, 5, 8]), 'reduction': rng.random() < 0.5,
                    'how': rng.choice(['solve_again', 'solve_again', 'restart_step_loop'])}
        r = rng.random()
        if r < 0.08:
            h = rng.randrange(len(HOSTILE))
            return {'kind': 'hostile', 'block': HOSTILE[h][0], 'why': HOSTILE[h][1],
                    'reduction': rng.random() < 0.5, 'cap': rng.choice([5, 50, 400, 2000]),
                    'tol': rng.choice([None, 1e-3, 1e-9])}
        if r < 0.11:
            # a random contraction with one equation that can never be evaluated, at a random position
            spec = G.gen_affine(rng, rho=rng.choice([0.2, 0.5]), tol=1e-8, maxtime=rng.randint(1, 4), aliases=False,
                                decos=rng.random() < 0.5, ics=False)
            x = spec['simul'][0]['name']
            bad = rng.choice(['1/({x} - {x})', 'log10({x} - {x})', 'sqrt(-1 - {x}*{x})', '2.5/(0.0*{x})',
                              'log(0*{x})']).format(x=x)
            lines = G.render(spec).split('\n')
            pos = rng.randint(0, max(0, len([l for l in lines if '=' in l and 'MaxTime' not in l]) - 1))
            lines.insert(pos, 'bad_v = 0.5*%s + %s' % (x, bad))
            lines.insert(rng.randint(0, pos), 'uses_bad = 0.25*bad_v + 1')
            return {'kind': 'hostile', 'block': '\n'.join(lines), 'why': 'persistent evaluation error (%s) at a random position' % bad,
                    'reduction': rng.random() < 0.5, 'cap': rng.choice([50, 400]), 'tol': None}
        if r < 0.15:
            return {'kind': 'userfn', 'fn': rng.choice(['inf_after', 'nan']), 'n': rng.randint(0, 30),
                    'reduction': rng.random() < 0.5, 'cap': rng.choice([50, 400])}
        if r < 0.20:
            return {'kind': 'failpoint', 'n': rng.randint(1, 5), 'exc': rng.choice(['ZeroDivisionError', 'ValueError']),
                    'reduction': rng.random() < 0.5, 'tol': rng.choice([1e-6, 1e-9])}
        nonlinear = rng.random() < 0.3
        cyclic = rng.random() < 0.8
        tol = 10 ** rng.uniform(-12, -1)
        if nonlinear:
            tol = min(tol, 1e-2)
        zero_tol = idx % 10 == 7
        spec = G.gen_affine(rng, nonlinear=nonlinear, cyclic=cyclic,
                            tol=tol if (rng.random() < 0.5 and not zero_tol) else None)
        if zero_tol:
            tol = 0.0        # requested on the solver object: an exact fixed point, or a loud failure
        earlier = None
        if rng.random() < 0.25:
            # the same solver object first reads and solves a VARIANT of the system (same names, other coefficients)
            import copy as _copy
            var = _copy.deepcopy(spec)
            for sm in var['simul']:
                sm['const'] = sm['const'] * 0.5 + 1.0
                sm['coef'] = {k_: v * 0.5 for k_, v in sm['coef'].items()}
            for cst in var['consts']:
                cst['value'] = cst['value'] + 1.0
            for dd in var['decos']:
                dd['expr'] = '2.0*(' + dd['expr'] + ')'
            if spec['tol'] is not None:
                # ... and that earlier job asked for a much coarser accuracy on its own Err_Tolerance line
                var['tol'] = rng.choice([0.05, 0.01, 1e-3])
            earlier = G.render(var)
        userfn = None
        if rng.random() < 0.2:
            # a user function (Lipschitz 0.1) used by the first equation; a rival solver registers the same name
            userfn = spec['simul'][0]['name']
            spec['simul'][0]['nl'] = ((spec['simul'][0]['nl'] + ' + ') if spec['simul'][0]['nl'] else '') + 'uf(%s)' % userfn
        text_ = G.render(spec)
        tol_via_ = 'line' if spec['tol'] is not None else 'param'
        forced_reduction = None
        if idx % 20 == 18 and not zero_tol:
            # this block leaves the accuracy to the default (no Err_Tolerance line, nothing set on the solver); the same solver
            # object has just solved another block that asked for a coarse accuracy on its own line
            import copy as _copy2
            spec['tol'] = None
            text_ = G.render(spec)
            var2 = _copy2.deepcopy(spec)
            for sm in var2['simul']:
                sm['const'] = sm['const'] * 0.5 + 1.0
            var2['tol'] = rng.choice([0.05, 0.01])
            earlier = G.render(var2)
            tol, tol_via_ = None, 'default'
        if idx % 20 == 3:
            # a mirror image of a simultaneous variable (x = -y), used as the base of a power and in a product
            x0_ = spec['simul'][0]['name']
            text_ = 'mir_a = -%s\nmir_sq = 0.001*mir_a**2 + mir_a\nmir_pr = 2*-mir_a*mir_a\n' % x0_ + text_
            forced_reduction = True
        return {'kind': 'system', 'spec': spec, 'text': text_, 'tol': tol, 'earlier': earlier, 'userfn': userfn,
                'tol_via': tol_via_, 'mirror_alias': idx % 20 == 3,
                'reduction': forced_reduction if forced_reduction is not None else rng.random() < 0.6, 'trace': rng.choice([None, None, 1, spec['maxtime']]),
                'cap': rng.choice([5000, 5000, 5000, 400, 60, 10, 1]),
                # how the job is submitted: ParseString + SolveEquation, the text given to the constructor, or the
                # public pieces called one by one (ExtractVariableList, SetInitialConditions, SolveStep per period)
                'route': ['parse_solve', 'constructor', 'manual_steps', 'parse_solve'][idx % 4] if earlier is None else 'parse_solve'}

    # ------------------------------------------------------------------------------------------
    def run_model(self, case):
        """A generated model solved by the real Model.main(): the emitted text is the submitted system."""
        from vf.gen import modelspec as M
        b = M.build(case['spec'])
        shape = 'model|' + M.shape_of(case['spec'])
        if b.error is not None:
            return {'verdict': 'notjudged', 'shape': shape + '|' + type(b.error).__name__}
        text = b.model.FinalEquations
        blk = B.split_block(text)
        tol = float(blk['tol']) if blk['tol'] is not None else 1e-8
        exact = B.derived_only(blk)
        viol, stats = B.check_solution(blk, dict(b.V), tol, exact_names=exact)
        for v in viol:
            v['mechanism'] = v['kind']
        counters = {k_: stats[k_] for k_ in ('equations_judged', 'exact_judged', 'lag_judged', 'finite_judged')}
        counters['model_level.judged'] = 1
        return {'verdict': 'violated' if viol else 'held', 'nontrivial': stats['equations_judged'] > 0, 'shape': shape,
                'counters': counters, 'violations': viol[:5],
                'obs': {'n_equations': len(blk['endo']), 'tol': tol, 'worst_ratio': stats['worst_ratio']},
                'worst': {'residual_over_bound': stats['worst_ratio']}}

    def run_case(self, case):
        from sfc_models.equation_solver import EquationSolver, ConvergenceError
        kind = case['kind']
        if kind == 'model':
            return self.run_model(case)
        if kind == 'retry':
            return self.run_retry(case)
        if kind == 'steady_then_shock':
            return self.run_steady_then_shock(case)
        counters = {}
        funcs = {}
        if kind == 'system':
            text = case['text']
        elif kind == 'hostile':
            text = case['block']
            if case.get('fn_nan'):
                funcs['myfn'] = fp_nan
            if case.get('nan_derived'):
                counters['hostile.derived_only_nan.cases'] = 1
        elif kind == 'userfn':
            text = 'x = 0.5*y + myfn(x)\ny = 0.25*x + 1\nz = x + y\nMaxTime = 3\nErr_Tolerance=1e-6'
            funcs['myfn'] = fp_inf_after(case['n']) if case['fn'] == 'inf_after' else fp_nan
        else:
            text = 'x = 0.5*y + myfn(x)\ny = 0.9*y + 0.02*x + 1\nd = 2*x\nMaxTime = 4\nErr_Tolerance=%r' % case['tol']
            exc = ZeroDivisionError if case['exc'] == 'ZeroDivisionError' else ValueError
            funcs['myfn'] = fp_raise_first(case['n'], exc)
        solver = EquationSolver(run_equation_reduction=case['reduction'])
        for k, f in funcs.items():
            solver.AddFunction(k, f)
        if kind == 'system':
            solver.MaxIterations = case['cap']
            solver.TraceStep = case['trace']
            if case['tol_via'] == 'param':
                solver.ParameterErrorTolerance = case['tol']
                if case['tol'] == 0.0:
                    counters['zero_tolerance_requested.cases'] = 1
            if case.get('userfn'):
                solver.AddFunction('uf', lambda v: 0.1 * v + 1.0)
                funcs['uf'] = lambda v: 0.1 * v + 1.0
                rival = EquationSolver('q = uf(q)*0 + 1\nMaxTime = 1')
                rival.AddFunction('uf', lambda v: 0.1 * v + 5.0)      # another solver, same name, another function
                counters['rival_user_function.cases'] = 1
            if case.get('earlier'):
                try:
                    with contextlib.redirect_stdout(io.StringIO()):
                        solver.ParseString(case['earlier'])
                        solver.SolveEquation()
                except Exception:
                    pass
                counters['solver_reused_for_variant.cases'] = 1
                if case['tol_via'] == 'line':
                    counters['solver_reused_after_coarser_block.cases'] = 1
                if case['tol_via'] == 'default':
                    counters['solver_reused_after_coarser_block.this_block_leaves_accuracy_to_the_default'] = 1
            if case.get('mirror_alias'):
                counters['mirror_image_alias_as_power_base.cases'] = 1
        elif kind in ('hostile', 'userfn'):
            solver.MaxIterations = case['cap']
            if case.get('tol') is not None:
                solver.ParameterErrorTolerance = case['tol']
        outcome = 'returned'
        err = None
        route = case.get('route', 'parse_solve') if kind == 'system' else 'parse_solve'
        if route != 'parse_solve':
            counters['route.' + route] = 1
        try:
            with contextlib.redirect_stdout(io.StringIO()):
                if route == 'constructor':
                    fresh = EquationSolver(text, run_equation_reduction=case['reduction'])
                    for attr in ('MaxIterations', 'TraceStep', 'ParameterErrorTolerance'):
                        setattr(fresh, attr, getattr(solver, attr))
                    for k_, f_ in solver.Functions.items():
                        fresh.AddFunction(k_, f_)
                    solver = fresh
                    solver.SolveEquation()
                elif route == 'manual_steps':
                    solver.ParseString(text)
                    solver.ExtractVariableList()
                    solver.SetInitialConditions()
                    for step_ in range(1, solver.Parser.MaxTime + 1):
                        solver.SolveStep(step_)
                else:
                    solver.ParseString(text)
                    solver.SolveEquation()
        except ConvergenceError as e:
            outcome, err = 'ConvergenceError', str(e)[:100]
        except ValueError as e:
            outcome, err = 'ValueError', str(e)[:100]
        except ArithmeticError as e:
            outcome, err = type(e).__name__, str(e)[:100]
        except Exception as e:
            # any exception is a loud outcome: C02 speaks about what is RETURNED
            outcome, err = type(e).__name__, str(e)[:100]
        shape = kind + ('|red' if case['reduction'] else '|nored')
        if outcome != 'returned':
            counters['outcome.' + outcome] = 1
            if kind in ('hostile', 'userfn'):
                counters['hostile.loud'] = 1
                return {'verdict': 'held', 'nontrivial': True, 'shape': shape, 'counters': counters,
                        'obs': {'outcome': outcome, 'err': err}}
            if kind == 'failpoint':
                # failing loudly while an evaluation error is still present is allowed
                counters['failpoint.loud'] = 1
                return {'verdict': 'held', 'nontrivial': False, 'shape': shape, 'counters': counters,
                        'obs': {'outcome': outcome, 'err': err}}
            # a benign system that does not converge under a small cap (or at all) says nothing about C02
            return {'verdict': 'notjudged', 'shape': shape + '|' + outcome, 'counters': counters,
                    'obs': {'outcome': outcome, 'err': err}}
        # ---- normal return: judge
        blk = B.split_block(text)
        series = dict(solver.TimeSeries)
        tol = case.get('tol')
        if tol is None:
            tol = float(blk['tol']) if blk['tol'] is not None else 1e-8
        exact = B.derived_only(blk) if case['reduction'] else set()
        viol, stats = B.check_solution(blk, series, tol, funcs=self.judge_funcs(case, funcs), exact_names=exact)
        # a line the block language does not offer (a lag inside an expression) defines nothing: no series may be reported under
        # its left-hand name unless another, well-formed line defines that name
        import re as _re
        defined = set(n for n, _ in blk['endo']) | set(n for n, _ in blk['lag']) | set(n for n, _ in blk['exo'])
        for bad_line in blk.get('malformed', []):
            m_ = _re.match(r'\s*([A-Za-z_]\w*)\s*=', bad_line)
            if m_ and m_.group(1) not in defined:
                counters['malformed_line.judged'] = counters.get('malformed_line.judged', 0) + 1
                if m_.group(1) in series:
                    viol.append({'kind': 'values_reported_for_a_line_that_is_not_an_equation_of_the_block_language',
                                 'detail': {'line': bad_line, 'reported': list(series[m_.group(1)])[:6], 'block': text}})
        # exogenous pinned exactly
        if kind == 'system':
            for e in case['spec']['exos']:
                n = case['spec']['maxtime'] + 1
                got = series.get(e['name'])
                counters['exo_judged'] = counters.get('exo_judged', 0) + 1
                if got is None or list(got) != list(e['values'][:n]):
                    viol.append({'kind': 'exogenous_not_supplied_values',
                                 'detail': {'var': e['name'], 'got': got, 'expected': e['values'][:n]}})
        for k_ in ('equations_judged', 'exact_judged', 'lag_judged', 'finite_judged'):
            counters[k_] = stats[k_]
        if kind == 'failpoint':
            counters['failpoint.recovered'] = 1
        if kind in ('hostile', 'userfn'):
            counters['hostile.returned'] = 1
        for v in viol:
            v['mechanism'] = v['kind']
            if kind in ('hostile', 'userfn'):
                v['detail']['why'] = case.get('why', case.get('fn'))
                v['detail']['block'] = text
        nontrivial = stats['equations_judged'] > 0
        obs = {'outcome': 'returned', 'tol': tol, 'worst_ratio': stats['worst_ratio'],
               'equations_judged': stats['equations_judged'], 'exact': sorted(exact)[:6]}
        return {'verdict': 'violated' if viol else 'held', 'nontrivial': nontrivial, 'shape': shape,
                'counters': counters, 'violations': viol[:5], 'obs': obs,
                'worst': {'residual_over_bound': stats['worst_ratio']}}

    def run_retry(self, case):
        from sfc_models.equation_solver import EquationSolver, ConvergenceError
        counters = {}
        # probe (a separate solver): how many sweeps does each period need?  the cap of the first attempt is then set
        # between what the quiet periods need and what the shock needs
        sweeps = {}

        def cnt_probe(v, k):
            sweeps[int(k)] = sweeps.get(int(k), 0) + 1
            return v
        probe = EquationSolver(run_equation_reduction=case['reduction'])
        probe.AddFunction('cnt', cnt_probe)
        probe.MaxIterations = 5000
        with contextlib.redirect_stdout(io.StringIO()):
            probe.ParseString(case['text'])
            probe.SolveEquation()
        quiet = max([n for k_, n in sweeps.items() if 1 <= k_ < case['shock_at']] or [1])
        loud = sweeps.get(case['shock_at'], 0)
        if loud <= quiet + 2:
            return {'verdict': 'notjudged', 'shape': 'retry|no_gap_between_quiet_and_shock', 'counters': counters}
        solver = EquationSolver(run_equation_reduction=case['reduction'])
        solver.AddFunction('cnt', lambda v, k: v)
        solver.MaxIterations = (quiet + loud) // 2
        first = 'returned'
        with contextlib.redirect_stdout(io.StringIO()):
            solver.ParseString(case['text'])
            try:
                solver.SolveEquation()
            except ConvergenceError:
                first = 'ConvergenceError'
            except ValueError as e:
                first = 'ValueError'
            solver.MaxIterations = 5000
            try:
                if case['how'] == 'solve_again':
                    solver.SolveEquation()
                else:
                    solver.ExtractVariableList()
                    solver.SetInitialConditions()
                    for step_ in range(1, solver.Parser.MaxTime + 1):
                        solver.SolveStep(step_)
            except Exception as e:
                return {'verdict': 'notjudged', 'shape': 'retry|second_failed:' + type(e).__name__, 'counters': counters,
                        'obs': {'err': repr(e)[:200]}}
        if first == 'ConvergenceError':
            counters['retry_after_failed_solve.cases'] = 1
        blk = B.split_block(case['text'])
        series = dict(solver.TimeSeries)
        viol, stats = B.check_solution(blk, series, case['tol'], funcs={'cnt': lambda v, k: v})
        n = case['maxtime'] + 1
        if list(series.get('g', [])) != list(case['g'][:n]):
            viol.append({'kind': 'exogenous_not_supplied_values', 'detail': {'var': 'g', 'got': list(series.get('g', []))[:8]}})
        for v in viol:
            v['mechanism'] = v['kind']
            v['detail']['after'] = 'a failed solve (%s at period %d, cap %d) followed by %s on the same solver' % (
                first, case['shock_at'], case['first_cap'], case['how'])
            v['detail']['block'] = case['text']
        for k_ in ('equations_judged', 'exact_judged', 'lag_judged', 'finite_judged'):
            counters[k_] = stats[k_]
        return {'verdict': 'violated' if viol else 'held', 'nontrivial': first != 'returned', 'shape': 'retry|' + case['how'],
                'counters': counters, 'violations': viol[:5],
                'obs': {'first_outcome': first, 'shock_at': case['shock_at'], 'worst_ratio': stats['worst_ratio']},
                'worst': {'residual_over_bound': stats['worst_ratio']}}

    def run_steady_then_shock(self, case):
        from sfc_models.equation_solver import EquationSolver
        counters = {}
        solver = EquationSolver(run_equation_reduction=case['reduction'])
        solver.MaxIterations = 5000
        solver.ParameterSolveInitialSteadyState = True
        solver.ParameterInitialSteadyStateErrorToler = case['search_tol']
        try:
            with contextlib.redirect_stdout(io.StringIO()):
                solver.ParseString(case['text'])
                solver.SolveEquation()
        except Exception as e:
            return {'verdict': 'notjudged', 'shape': 'steady_then_shock|' + type(e).__name__, 'counters': counters,
                    'obs': {'err': repr(e)[:200]}}
        counters['steady_state_option_then_shock.cases'] = 1
        blk = B.split_block(case['text'])
        series = dict(solver.TimeSeries)
        viol, stats = B.check_solution(blk, series, case['tol'])
        n = case['maxtime'] + 1
        if list(series.get('g', [])) != list(case['g'][:n]):
            viol.append({'kind': 'exogenous_not_supplied_values', 'detail': {'var': 'g', 'got': list(series.get('g', []))[:8]}})
        for v in viol:
            v['mechanism'] = v['kind']
            v['detail']['with'] = 'ParameterSolveInitialSteadyState = True (search tolerance %g), accuracy requested by the Err_Tolerance line' % case['search_tol']
            v['detail']['block'] = case['text']
        for k_ in ('equations_judged', 'exact_judged', 'lag_judged', 'finite_judged'):
            counters[k_] = stats[k_]
        return {'verdict': 'violated' if viol else 'held', 'nontrivial': True, 'shape': 'steady_then_shock',
                'counters': counters, 'violations': viol[:5], 'obs': {'worst_ratio': stats['worst_ratio']},
                'worst': {'residual_over_bound': stats['worst_ratio']}}

    @staticmethod
    def judge_funcs(case, funcs):
        # the monitor evaluates user functions by their *steady* meaning, not the failpoint's state
        if case['kind'] == 'failpoint':
            return {'myfn': lambda x: 0.25 * x + 1.0}
        if case['kind'] == 'system' and case.get('userfn'):
            return {'uf': lambda v: 0.1 * v + 1.0}
        if case['kind'] == 'userfn':
            return {'myfn': (lambda x: float('inf')) if case['fn'] == 'inf_after' else fp_nan}
        return None


PROP = C02()
