"""C18 - codes are labels: renaming and embedding leave an economy unchanged."""
import contextlib
import copy
import io

from vf import monitors
from vf.gen import modelspec as M
from vf.oracle import qsolve as Q
from vf.props.c08 import compare_exact

NEW_CODES = {
    'GOV': ['STATE', 'G_1', 'PUBLIC'], 'TRE': ['FISC', 'TREASURY', 'T_R'], 'CB': ['BANK', 'CBANK', 'RESERVE'],
    'HH': ['WORKERS', 'H', 'HOUSE_1'], 'CAP': ['OWNERS', 'RENTIER'], 'BUS': ['FIRM', 'CORP', 'B_1'],
    'TF': ['TAXMAN', 'TX'], 'GOOD': ['WIDGET', 'STUFF', 'GOOD_A', 'G'], 'LAB': ['WORK', 'LABOUR', 'L'], 'SRV': ['SERVICE', 'S_2'],
}
NEW_COUNTRY = ['ZED', 'K1', 'LAND_A', 'Q', 'NORTH', 'X_Y']
PREFIXES = ['LAG_SUP_', 'LAG_DEM_', 'SUP_', 'DEM_', 'MU_']


TRICKY = ['MEAT', 'ENERGY', 'DEMAND', 'D', 'E', 'M', 'SUPER', 'SUP', 'DEM', 'LAGER', 'LAG', 'MU', 'EXT', 'F', 'INC', 'T',
          'Durables', 'goods', 'Em_1', 'MON2', 'DEPOT', 'GOODS', 'LABOR', 'XR', 'NET']


def random_code(rng, used):
    for _ in range(50):
        if rng.random() < 0.45:
            c = rng.choice(TRICKY)
        else:
            n = rng.randint(1, 7)
            c = rng.choice('ABCDEFGHIJKLMNOPQRSTUVWXYZabcdemsu')
            for i in range(n - 1):
                c += rng.choice('ABCDEFGHIJKLMNOPQRSTUVWXYZabcdefghijklmnopqrstuvwxyz0123456789_')
            c = c.replace('__', '_').rstrip('_') or 'Q'
        if c not in used and c not in ('MON', 'DEP', 'BOND', 'k', 't') and '__' not in c:
            used.add(c)
            return c
    return 'Z%d' % len(used)


PREFIX_CHARS = ['MEAT', 'ENERGY', 'DEMAND', 'Durables', 'Em_1', 'D', 'E', 'M', 'DEM', 'SUP', 'SUPPLY', 'LAGGED', 'UPS', 'PUSS',
                'MUD', 'ED', 'DEED']


def make_renaming(rng, spec, force_prefix_chars=False, case_variants=False):
    codes, ckey_map = {}, {}
    used_c = set(['EXT'])
    used = set(['MON', 'DEP', 'BOND'] + list(M.DEFAULT_CODES.values()))     # every new code is distinct model-wide
    for z in spec['zones']:
        for c in z['countries']:
            if rng.random() < 0.8:
                ckey_map[c['key']] = random_code(rng, used_c) if rng.random() < 0.5 else rng.choice(
                    [x for x in NEW_COUNTRY if x not in used_c] or ['C%d' % len(used_c)])
                used_c.add(ckey_map[c['key']])
            cm = {}
            for role in NEW_CODES:
                if rng.random() < 0.7:
                    if rng.random() < 0.5:
                        cand = [x for x in NEW_CODES[role] if x not in used]
                        if cand:
                            cm[role] = rng.choice(cand)
                            used.add(cm[role])
                    else:
                        cm[role] = random_code(rng, used)
            if force_prefix_chars:
                # market codes made only of the characters of the prefixes DEM_/SUP_/LAG_ (a code is never a prefix)
                for role in ('GOOD', 'LAB'):
                    cand = [x for x in PREFIX_CHARS if x not in used]
                    if cand and rng.random() < 0.8:
                        cm[role] = rng.choice(cand)
                        used.add(cm[role])
            if case_variants:
                # codes of one country that differ only by letter case (codes are case-sensitive labels)
                pairs = [('HH', 'BUS', 'Ab', 'AB'), ('LAB', 'GOOD', 'Work', 'WORK'), ('TF', 'HH', 'tx', 'TX')]
                ra, rb, ca_, cb_ = pairs[len(codes) % len(pairs)]
                tag = '' if not codes else str(len(codes))
                if (ca_ + tag) not in used and (cb_ + tag) not in used:
                    cm[ra], cm[rb] = ca_ + tag, cb_ + tag
                    used.update([ca_ + tag, cb_ + tag])
            codes[c['key']] = cm
    if case_variants:
        keys = [c['key'] for z in spec['zones'] for c in z['countries']]
        if len(keys) >= 2:
            ckey_map[keys[0]], ckey_map[keys[1]] = 'Ca', 'CA'
    return codes, ckey_map


def name_mapper(base_b, other_b, prefix_only=False):
    """Structural map of variable names from the base build to the other build, derived from the sector
    objects of the two builds (same (country key, role) -> old/new full code, market short codes)."""
    full = {}
    short = {}      # old country code -> {old short market code: new}
    country = {}
    for key, s in base_b.sectors.items():
        o = other_b.sectors[key]
        full[s.FullCode] = o.FullCode
        full[s.Parent.Code + '_' + s.Code] = o.Parent.Code + '_' + o.Code
        short.setdefault(s.FullCode, None)
        country[s.Parent.Code] = o.Parent.Code
    owner_country = {}
    for key, s in base_b.sectors.items():
        owner_country[s.FullCode] = key[0]
    market_short = {}
    for key, s in base_b.sectors.items():
        if key[1] in ('GOOD', 'LAB', 'SRV'):
            market_short.setdefault(key[0], {})[s.Code] = other_b.sectors[key].Code

    role_of = {}
    own_code = {}
    for key, s in base_b.sectors.items():
        role_of[s.FullCode] = key[1]
        own_code[s.FullCode] = (s.Code, other_b.sectors[key].Code)

    def f(name):
        if '__' not in name:
            return name
        fc, local = name.split('__', 1)
        nfc = full.get(fc, fc)
        ck = owner_country.get(fc)
        for p in PREFIXES:
            if local.startswith(p):
                rem = local[len(p):]
                if role_of.get(fc) in ('GOOD', 'LAB', 'MON', 'DEP', 'SRV', 'BOND'):
                    if rem == own_code[fc][0]:
                        return nfc + '__' + p + own_code[fc][1]
                    if rem in full:
                        return nfc + '__' + p + full[rem]
                    if rem in country:
                        return nfc + '__' + p + country[rem]
                else:
                    if ck is not None and rem in market_short.get(ck, {}):
                        return nfc + '__' + p + market_short[ck][rem]
                    if rem in ('MON', 'DEP', 'BOND'):
                        return nfc + '__' + local
                    if rem in full:
                        return nfc + '__' + p + full[rem]
                    if rem in country:
                        return nfc + '__' + p + country[rem]
                break
        return nfc + '__' + local
    return f


class C18(object):
    id = 'C18'
    anchors = ('Model._GenerateFullSectorCodes', 'Model._FitIntoCurrencyZone', 'GL_book_model.__init__', 'HouseholdWithExpectations.__init__', 'FixedMarginBusiness.__init__', 'CurrencyZone.GetSectors')
    title = 'Codes are labels: renaming and embedding leave an economy unchanged'
    rule = ('case kinds: (a) rename - a random model specification is built with the default codes and with an injective '
            'renaming of country, government/treasury/central-bank, household, capitalist, firm, tax-flow, goods-market and '
            'labour-market codes passed through the constructor name parameters; (b) embed - 2-3 economies with pairwise '
            'different currencies and no flows between them are built stand-alone and jointly (with and without an unused '
            'external sector); (c) embed_book - the bundled builders SIM / SIMEX1 / PC embedded next to each other; every '
            'build is solved by the real main() and re-solved exactly; under the structural name map the variable sets must '
            'coincide (extras only where the spec wires DEM_GOOD = DEM_<new good>) and the exact solutions be equal as '
            'rationals (1e-5 when a Tobin weight was frozen: the pinned value carries the solver tolerance 1e-6); a renamed/joint build that raises while the base solves is a '
            'violation; distinct = hash of case; non-trivial = >= 1 code actually changed / >= 2 economies')
    assumptions = ['governments take no goods name: for a renamed goods market the spec wires DEM_GOOD = DEM_<new> on the '
                   'government, as the bundled REG model does', 'MON and DEP market codes keep their defaults']
    required_counters = ('rename.compared', 'rename.compared.market_code_of_prefix_characters', 'rename.compared.codes_differing_only_by_case', 'embed.compared', 'embed.compared.capitalists_next_to_a_firm_that_retains_profits',
                         'embed.compared.federation_with_default_currency_regions_behind_unused_external_sector', 'embed_book.compared', 'builds.compared_exactly',
                         'embed.with_refused_duplicate_country_attempts',
                         'embed.with_zone_queries_during_construction',
                         'embed.with_diagnostic_dump_after_every_country',
                         'embed.with_one_equation_object_given_to_households_of_several_economies',
                         'rename.compared.federation_with_run_time_built_currency_strings',
                         'embed.with_one_economys_government_coded_like_the_others_household',
                         'embed.with_other_models_created_while_the_joint_model_is_assembled')

    def n_cases(self, tier):
        return 24 if tier == 'quick' else 600

    def make_case(self, rng, idx, tier):
        m = idx % 6
        if m in (0, 1, 2):
            spec = M.gen_spec(rng, n_zones=rng.choice([1, 1, 2]), maxtime=rng.randint(3, 5))
            if m == 2:
                # a federation (central government region + regions sharing the currency): the renamed build names the currency
                # with a string object of its own for every country
                for _ in range(100):
                    if any(z['kind'] == 'federation' for z in spec['zones']):
                        break
                    spec = M.gen_spec(rng, n_zones=rng.choice([1, 1, 2]), maxtime=rng.randint(3, 5))
            codes, ckey_map = make_renaming(rng, spec, force_prefix_chars=(m == 0), case_variants=(m == 1))
            return {'kind': 'rename', 'case_variants': m == 1, 'spec': spec, 'codes': codes, 'ckey_map': ckey_map}
        if m in (3, 4):
            spec = M.gen_spec(rng, n_zones=rng.choice([2, 2, 3]), ext=False, maxtime=rng.randint(3, 4), cross=False)
            if m == 4:
                # a federation (regions created without an explicit currency) embedded behind an unused external sector
                for _ in range(60):
                    if any(z['kind'] == 'federation' for z in spec['zones'][1:]):
                        break
                    spec = M.gen_spec(rng, n_zones=rng.choice([2, 2, 3]), ext=False, maxtime=rng.randint(3, 4), cross=False)
            if rng.random() < 0.7:
                # every economy books an internal transfer of its own (their local variable names coincide)
                for z in spec['zones']:
                    keys = [c['key'] for c in z['countries']]
                    if any(g['src'][0] in keys for g in spec['gifts']):
                        continue
                    central = [c['key'] for c in z['countries'] if c['role'] in ('single', 'central')][0]
                    region = [c['key'] for c in z['countries'] if c['role'] != 'central'][0]
                    spec['gifts'].append({'src': [central, 'GOVLIKE'], 'dst': [region, 'HH'], 'amount': rng.choice(['1.5', '2.0']),
                                          'inc_src': rng.random() < 0.5, 'inc_dst': rng.random() < 0.5,
                                          'id': len(spec['gifts'])})
            if m == 3:
                # one economy has capitalists; another has a profitable firm and no capitalists of its own
                regs = [[c for c in z['countries'] if c['role'] != 'central'][0] for z in spec['zones']]
                for c in regs:
                    c['firm'] = {'form': 'fixed', 'margin': 0.125}
                    for key in ('second_market',):
                        c[key] = None
                regs[0]['cap'] = regs[0].get('cap') or {'ai': 0.6, 'af': 0.2}
                # ... and the second economy's currency is spelled like the first one's, in lower case: another currency
                spec['zones'][1]['cur'] = spec['zones'][0]['cur'].lower()
                for c in regs[1:]:
                    c['cap'] = None
                spec['imports'] = [i for i in spec['imports'] if i['supplier'] not in [c['key'] for c in regs]]
                for z in spec['zones']:
                    z['internal_imports'] = [i for i in z.get('internal_imports', []) if i['supplier'] not in [c['key'] for c in regs]]
            fed_later = m == 4 and any(z['kind'] == 'federation' for z in spec['zones'][1:])
            return {'kind': 'embed', 'spec': spec, 'unused_ext': fed_later or rng.random() < 0.5, 'cap_next_to_retained_profits': m == 3,
                    'federation_behind_unused_ext': fed_later,
                    'region_default_currency': fed_later or rng.random() < 0.6}
        names = ['SIM', 'SIMEX1', 'PC', 'PC']
        k = rng.choice([2, 2, 3])
        return {'kind': 'embed_book', 'builders': [rng.choice(names) for _ in range(k)],
                'unused_ext': (idx // 6) % 2 == 1, 'maxtime': rng.randint(3, 6),
                'book_exogenous': rng.random() < 0.5}

    def run_case(self, case):
        return getattr(self, 'run_' + case['kind'])(case)

    # ------------------------------------------------------------------------------------------
    def solved(self, b):
        if b.error is not None:
            return None
        return Q.qsolve(b.model.FinalEquations, b.V)

    def run_rename(self, case):
        rec = monitors.Recorder()
        spec = case['spec']
        shape = 'rename|' + M.shape_of(spec)
        base = M.build(spec)
        if base.error is not None:
            return {'verdict': 'notjudged', 'shape': shape + '|base:' + type(base.error).__name__}
        base_E = self.solved(base)
        # the renamed build gets its names as run-time built string objects (a renaming function's output), the base as literals
        other = M.build(spec, codes=case['codes'], ckey_map=case['ckey_map'], fresh_currency_strings=True)
        changed = sum(len(v) for v in case['codes'].values()) + len(case['ckey_map'])
        ctx = {'codes': case['codes'], 'countries': case['ckey_map']}
        if other.error is not None:
            rec.violate('renamed_build_fails', dict(ctx, err=repr(other.error)[:300]))
        else:
            other_E = self.solved(other)
            f = name_mapper(base, other)
            # extras: DEM_GOOD kept on a government whose goods market was renamed
            extra = set()
            for z in spec['zones']:
                for c in z['countries']:
                    if c['role'] == 'single' and case['codes'].get(c['key'], {}).get('GOOD'):
                        gk = other.gov_of[z['cur']]
                        extra.add(other.sectors[gk].GetVariableName('DEM_GOOD'))
            other_view = copy.copy(other_E)
            other_view.names = [n for n in other_E.names if n not in extra]
            compare_exact(rec, base, base_E, other, other_view, ctx, name_map=f)
            rec.count('rename.compared')
            if any(z['kind'] == 'federation' for z in spec['zones']):
                rec.count('rename.compared.federation_with_run_time_built_currency_strings')
            if case.get('case_variants'):
                rec.count('rename.compared.codes_differing_only_by_case')
            if any(cm.get(r) in PREFIX_CHARS for cm in case['codes'].values() for r in ('GOOD', 'LAB')):
                rec.count('rename.compared.market_code_of_prefix_characters')
        return {'verdict': 'violated' if rec.violations else 'held', 'nontrivial': changed >= 1, 'evals': 2,
                'shape': shape, 'counters': rec.counters, 'violations': rec.violations[:4],
                'obs': {'codes': case['codes'], 'countries': case['ckey_map'], 'n_vars': len(base_E.names)}}

    def run_embed(self, case):
        rec = monitors.Recorder()
        spec = case['spec']
        shape = 'embed|' + M.shape_of(spec) + ('|unused_ext' if case['unused_ext'] else '')
        rdc = bool(case.get('region_default_currency'))
        # the joint build is also the place where a caller's diagnostics and helpers run: a duplicate-country attempt after
        # every country (refused, caught), the public zone API queried after every declaration
        extras = {'dup_country_attempts': bool(case.get('federation_behind_unused_ext')) or bool(case.get('cap_next_to_retained_profits')),
                  'query_zone': bool(case.get('cap_next_to_retained_profits')),
                  'log_info_after_every_country': bool(case.get('federation_behind_unused_ext'))}
        if extras['log_info_after_every_country']:
            rec.count('embed.with_diagnostic_dump_after_every_country')
        if case.get('federation_behind_unused_ext') or case.get('cap_next_to_retained_profits'):
            # the joint model is assembled economy by economy while other Model objects (and a small second model) come and go
            extras['interleave_model'] = True
            rec.count('embed.with_other_models_created_while_the_joint_model_is_assembled')
        if extras['dup_country_attempts']:
            rec.count('embed.with_refused_duplicate_country_attempts')
        if extras['query_zone']:
            rec.count('embed.with_zone_queries_during_construction')
        rule = bool(case.get('cap_next_to_retained_profits'))
        swap_codes = None
        if rule:
            extras['extra_rule'] = 'shared'
            # the second economy calls its government (treasury) 'HH' and its households 'WRK': short codes are only unique within
            # a country, so the first economy's household and the second economy's government share one
            swap_codes = {}
            for c in spec['zones'][1]['countries']:
                swap_codes[c['key']] = {'GOV': 'HH', 'TRE': 'HH', 'HH': 'WRK'}
            extras['codes'] = swap_codes
            rec.count('embed.with_one_economys_government_coded_like_the_others_household')
        joint = M.build(spec, unused_ext=case['unused_ext'], region_default_currency=rdc, fresh_currency_strings=True, **extras)
        if rule and getattr(joint, 'extra_rule_holders', 0) >= 2:
            rec.count('embed.with_one_equation_object_given_to_households_of_several_economies')
        zone_keys = [[c['key'] for c in z['countries']] for z in spec['zones']]
        alone = []
        for z, keys in zip(spec['zones'], zone_keys):
            sub = {'maxtime': spec['maxtime'], 'ext': False, 'zones': [z], 'imports': [],
                   'gifts': [g for g in spec['gifts'] if g['src'][0] in keys]}
            alone.append(M.build(sub, region_default_currency=rdc, **({'extra_rule': 'own', 'codes': swap_codes} if rule else {})))
        if any(a.error is not None for a in alone):
            return {'verdict': 'notjudged', 'shape': shape + '|alone_failed'}
        if joint.error is not None:
            rec.violate('joint_build_fails_while_each_economy_solves_alone', {'err': repr(joint.error)[:300]})
            return {'verdict': 'violated', 'shape': shape, 'counters': rec.counters, 'violations': rec.violations}
        joint_E = self.solved(joint)
        for a, keys, z in zip(alone, zone_keys, spec['zones']):
            a_E = self.solved(a)
            # restrict the joint build to this economy's sectors
            sub_b = M.Built()
            sub_b.sectors = {k: v for k, v in joint.sectors.items() if k[0] in keys}
            f = name_mapper(a, sub_b)
            mine = set(f(n) for n in a_E.names if '__' in n)
            own_full = set(s.FullCode for s in sub_b.sectors.values())
            view = copy.copy(joint_E)
            view.names = [n for n in joint_E.names if '__' in n and n.split('__')[0] in own_full]
            a_view = copy.copy(a_E)
            a_view.names = [n for n in a_E.names if '__' in n]
            compare_exact(rec, a, a_view, joint, view, {'economy': z['cur'], 'unused_ext': case['unused_ext']},
                          name_map=f)
            rec.count('embed.compared')
            if case.get('cap_next_to_retained_profits'):
                rec.count('embed.compared.capitalists_next_to_a_firm_that_retains_profits')
            if case.get('federation_behind_unused_ext'):
                rec.count('embed.compared.federation_with_default_currency_regions_behind_unused_external_sector')
        return {'verdict': 'violated' if rec.violations else 'held', 'nontrivial': len(alone) >= 2,
                'evals': 1 + len(alone), 'shape': shape, 'counters': rec.counters, 'violations': rec.violations[:4],
                'obs': {'economies': [z['cur'] for z in spec['zones']], 'joint_vars': len(joint_E.names)}}

    def run_embed_book(self, case):
        from vf import ambient
        from sfc_models.models import Model
        from sfc_models.external import ExternalSector
        rec = monitors.Recorder()
        shape = 'embed_book|' + '+'.join(case['builders'])
        T = case['maxtime']

        def wire(mod_builder, mod):
            # the book builders with their own exogenous off: supply government demand (and the rate) explicitly
            if case['book_exogenous']:
                return
            c = mod_builder.Country
            for s in c.SectorList:
                if 'DEM_GOOD' in s.EquationBlock and s.Code in ('GOV', 'TRE'):
                    s.SetExogenous('DEM_GOOD', [20.0] * (T + 2))
                if s.Code == 'DEP':
                    s.SetExogenous('r', [0.025] * (T + 2))
                if s.Code == 'HH' and 'L0' in s.EquationBlock:
                    s.AddInitialCondition('F', 80.0)
                    s.AddInitialCondition('AfterTax', 80.0)
        alone = []
        for i, name in enumerate(case['builders']):
            cls = ambient.book_builders()[name]
            b = cls(country_code='B%d' % i, use_book_exogenous=case['book_exogenous'])
            mod = b.build_model()
            wire(b, mod)
            mod.MaxTime = T
            mod.EquationSolver.MaxIterations = 3000
            try:
                with contextlib.redirect_stdout(io.StringIO()):
                    mod.main()
            except Exception as e:
                return {'verdict': 'notjudged', 'shape': shape + '|alone_failed', 'obs': {'err': repr(e)[:200]}}
            alone.append((b, mod))
        joint = Model()
        if case['unused_ext']:
            ExternalSector(joint)
        builders = []
        for i, name in enumerate(case['builders']):
            cls = ambient.book_builders()[name]
            b = cls(country_code='B%d' % i, model=joint, use_book_exogenous=case['book_exogenous'])
            b.build_model()
            wire(b, joint)
            builders.append(b)
        joint.MaxTime = T
        joint.EquationSolver.MaxIterations = 3000
        try:
            with contextlib.redirect_stdout(io.StringIO()):
                joint.main()
        except Exception as e:
            rec.violate('embedded_book_build_fails', {'builders': case['builders'], 'err': repr(e)[:300],
                                                      'book_exogenous': case['book_exogenous']})
            return {'verdict': 'violated', 'shape': shape, 'counters': rec.counters, 'violations': rec.violations,
                    'nontrivial': True}
        JV = joint.EquationSolver.TimeSeries
        # the economies the builders were asked to put INTO this model must be in it
        have = [c_.Code for c_ in joint.CountryList]
        missing = ['B%d' % i_ for i_ in range(len(case['builders'])) if 'B%d' % i_ not in have]
        if missing:
            rec.violate('economy_not_in_the_model_it_was_built_into', {'builders': case['builders'], 'countries_in_the_joint_model': have,
                                                                       'missing': missing, 'unused_ext': case['unused_ext']})
            return {'verdict': 'violated', 'shape': shape, 'counters': rec.counters, 'violations': rec.violations, 'nontrivial': True}
        jE = Q.qsolve(joint.FinalEquations, JV)
        for i, (b, mod) in enumerate(alone):
            aE = Q.qsolve(mod.FinalEquations, mod.EquationSolver.TimeSeries)
            code = 'B%d' % i
            multi = len(joint.CountryList) > 1

            def f(n, code=code):
                if '__' not in n:
                    return n
                fc, local = n.split('__', 1)
                for p in PREFIXES:
                    if local.startswith(p) and local[len(p):] in ('BUS', 'HH'):
                        local = p + code + '_' + local[len(p):]
                return code + '_' + fc + '__' + local
            a_view = copy.copy(aE)
            a_view.names = [n for n in aE.names if '__' in n]
            view = copy.copy(jE)
            view.names = [n for n in jE.names if n.startswith(code + '_')]
            compare_exact(rec, None, a_view, None, view, {'builder': case['builders'][i], 'code': code}, name_map=f)
            rec.count('embed_book.compared')
        return {'verdict': 'violated' if rec.violations else 'held', 'nontrivial': True,
                'evals': 1 + len(alone), 'shape': shape, 'counters': rec.counters, 'violations': rec.violations[:4],
                'obs': {'builders': case['builders'], 'joint_vars': len(jE.names)}}


PROP = C18()
