"""C14 - equation text is classified faithfully; comments are inert."""
import contextlib
import io
import random
import re
import warnings

from vf import monitors
from vf.gen import eqsys as G
from vf.runner import chash

HOSTILE = ['x = 1', 'a == b # c', '# # #', '(0) (k-1) (t-1)', 'MaxTime = 3', 'this is exogenous to the model',
           'EXOGENOUS', 'Exogenous government spending = 20', 'y(0) = 5', '12345 = 67', 'Err_Tolerance=1',
           "it's \"quoted\"", 't = 5', 'k', '[1,2,3]*3', 'LAG_x = x(k-1)', '= = =']
HOSTILE += ['Government consumption of goods and services, which this version of the model treats as exogenous = 20 per period',
            'z' * 70 + ' exogenous ' + 'y' * 40 + ' # x = 1',
            'a very long description ' * 6 + 'EXOGENOUS variables follow (0) (k-1)']
HOSTILE += ['Household {alpha_1 = 0.6}', 'share {0} of {1}', 'a lone { brace', '}{', '{k-1} = {}', '100% {:d} %s %(x)s']
# texts pasted from a PDF or a web page: still ONE line (no newline character), but with a form feed, a vertical tab, an
# information separator, NEL or a Unicode line/paragraph separator in it
HOSTILE += ['pasted from a pdf\x0cexogenous = 5', 'two\u2028x = 1', 'nel\x85MaxTime = 2', 'gs\x1dexogenous', 'vt\x0by(0) = 3',
            'ps\u2029z = z(k-1)']
HOSTILE_NOMARK = [h for h in HOSTILE if 'exogenous' not in h.lower()]
MALFORMED = ['just some words', 'a = b = c', 'LL = {v}(k-1) + 1', 'LL = 2*{v}(k-1)', 'LL = {v}(t-1) - {v}',
             'LL = 0.5 *{v} (k -1 )', 'LL = {v} (k -1 ) + 1', 'LL = {v} (k -1 )*{v} (k -1 )', 'LL = 1 + {v}(t-1)',
             'x ==', 'no equals sign here 3 + 4',
             # a single character after the lag
             'LL = {v}(k-1)2', 'LL = {v}(k-1)y', 'LL = {v}(t-1))', 'LL = {v}(k-1)*', 'LL = {v} (k -1 )1']


def vals_for(names, rng):
    env = {}
    for n in names:
        env[n] = rng.choice([1.0, 2.0, 0.5, 3.0, 1.5, 4.0])
    env['k'] = 3.0
    env.setdefault('t', 5.0)
    return env


def build_text(case, comment_mode):
    """Render the case's lines; comment_mode in 'none' | 'plain' | 'hostile'."""
    r = random.Random(case['cseed'])
    out = []
    for ln in case['lines']:
        kind = ln['kind']
        if kind == 'blank':
            out.append('')
            continue
        if kind == 'comment':
            if comment_mode == 'none':
                continue
            out.append('# ' + (r.choice(HOSTILE_NOMARK) if comment_mode == 'hostile' else 'a comment'))
            continue
        if kind == 'marker':
            out.append(ln['text'])
            continue
        text = ln['text']
        if ln.get('trail'):
            if comment_mode == 'plain':
                text += '  # description'
            elif comment_mode == 'hostile':
                text += r.choice(['  # ', '#', ' # ']) + r.choice(HOSTILE)
        out.append(text)
    return '\n'.join(out)


def gen_case(rng, idx=0):
    spec = G.gen_affine(rng, tol=rng.choice([None, 1e-6, 1e-9]))
    spec['style']['comments'] = False
    sty = spec['style']['spacing']
    r = random.Random(rng.getrandbits(30))

    def eqline(name, rhs):
        if r.random() < 0.3:
            rhs = rhs.replace(' + ', '+').replace(' - ', '-')
        elif r.random() < 0.2:
            rhs = rhs.replace(' + ', '  +  ').replace('*', ' * ')
        if sty == 'tight':
            return '%s=%s' % (name, rhs)
        if sty == 'spaced':
            return '%s = %s' % (name, rhs)
        return '%s%s%s=%s%s%s' % (' ' * r.randint(0, 3), name, ' ' * r.randint(0, 2), ' ' * r.randint(0, 2), rhs,
                                  ' ' * r.randint(0, 2))
    expected = []   # (cls, name, rhs)
    lines = []
    body = G.lines_of(spec)
    r.shuffle(body)
    for cls, name, rhs in body:
        lines.append({'kind': 'eq', 'text': eqline(name, rhs), 'trail': r.random() < 0.5})
        expected.append(['lag' if cls == 'lag' else 'endo', name,
                         [l['src'] for l in spec['lags'] if l['name'] == name][0] if cls == 'lag' else rhs])
    used_names = set(G.all_value_names(spec) + [d['name'] for d in spec['decos']])
    case_variants = []
    if r.random() < 0.4:
        # ordinary variables whose names differ from the reserved ones only by letter case (T for taxes, ...)
        for nm, val in (('T', '12.5'), ('maxtime', '3.0'), ('MAXTIME', '7.0'), ('err_tolerance', '0.5'), ('K', '2.0')):
            if nm not in used_names and r.random() < 0.6:
                lines.insert(r.randint(0, len(lines)), {'kind': 'eq', 'text': eqline(nm, val), 'trail': r.random() < 0.4})
                expected.append(['endo', nm, val])
                case_variants.append(nm)
    lag_lookalikes = []
    if r.random() < 0.4:
        # well-formed simultaneous equations that merely LOOK like lag spellings: bracketed negative literals,
        # function arguments written 't - 1' / 'k - 1'
        x0 = spec['simul'][0]['name']
        for nm, rhs in (('zl_neg', '%s*(-1)' % x0), ('zl_sub', '%s - ( -1 )' % x0), ('zl_abs', 'abs(-1) + %s' % x0),
                        ('zl_ramp', 'abs(t - 1)'), ('zl_step', 'max(k - 1, 0.0) + min(t -1, 2.0)')):
            if nm not in used_names and r.random() < 0.7:
                # written out as is: the spacing is the point (compressed, 't - 1' would BE the lag spelling '(t-1)')
                lines.insert(r.randint(0, len(lines)), {'kind': 'eq', 'text': '%s = %s' % (nm, rhs), 'trail': r.random() < 0.4})
                expected.append(['endo', nm, rhs])
                lag_lookalikes.append(nm)
    blank_before_marker = idx % 5 == 3
    if blank_before_marker and not spec['ics']:
        spec['ics'][spec['simul'][0]['name']] = 2.5
    for j_, (n, v) in enumerate(spec['ics'].items()):
        # (idx % 5 == 3: the time-zero marker set off from the name by a blank or a tab - spacing, nothing else)
        marker0 = ([' (0)', '\t(0)', '  (0)'][j_ % 3]) if blank_before_marker else '(0)'
        lines.insert(r.randint(0, len(lines)), {'kind': 'eq', 'text': eqline(n + marker0, G.fmt_num(v)),
                                                'trail': r.random() < 0.3})
        expected.append(['ic', n, G.fmt_num(v)])
    if spec['time'] is None and r.random() < 0.35:
        # an initial condition on the time axis the user did NOT define: the default 't = k' is still supplied
        tv = r.choice(['5.', '1990.0', '-1.0'])
        lines.insert(r.randint(0, len(lines)), {'kind': 'eq', 'text': eqline('t(0)', tv), 'trail': r.random() < 0.3})
        expected.append(['ic', 't', tv])
    params = [{'kind': 'eq', 'text': eqline('MaxTime', str(spec['maxtime'])), 'trail': r.random() < 0.3}]
    if spec['tol'] is not None:
        params.append({'kind': 'eq', 'text': eqline('Err_Tolerance', repr(spec['tol'])), 'trail': False})
    malformed = []
    for _ in range(r.choice([0, 0, 1, 2])):
        v = spec['simul'][0]['name']
        m = r.choice(MALFORMED).format(v=v)
        malformed.append(m)
        lines.insert(r.randint(0, len(lines)), {'kind': 'eq', 'text': m, 'trail': False})
    for _ in range(r.randint(0, 3)):
        lines.insert(r.randint(0, len(lines)), {'kind': r.choice(['comment', 'blank'])})
    where = r.choice(['before', 'after', 'mid'])
    if where == 'before':
        lines = lines + params
        params = []
    if spec['exos'] or r.random() < 0.3:
        marker = r.choice(['# Exogenous Variables', 'exogenous', 'Exogenous', '# EXOGENOUS', '#exogenous section',
                           '  Exogenous variables follow', '# ---- exogenous ----',
                           # a block typed inside an indented string: the comment-line marker is indented too
                           '    # Exogenous variables', '\t# exogenous', '        #   EXOGENOUS   '])
        lines.append({'kind': 'marker', 'text': marker})
        for e in spec['exos']:
            lines.append({'kind': 'eq', 'text': eqline(e['name'], e['text']), 'trail': r.random() < 0.4})
            expected.append(['exo', e['name'], e['text']])
            if where == 'mid' and params:
                lines.extend(params)
                params = []
    lines = lines + params
    return {'kind': 'block', 'lines': lines, 'expected': expected, 'malformed': malformed,
            'maxtime': spec['maxtime'], 'tol': spec['tol'], 'has_time': spec['time'] is not None,
            'ic_on_default_time': any(e[0] == 'ic' and e[1] == 't' for e in expected) and spec['time'] is None,
            'case_variants': case_variants, 'lag_lookalikes': lag_lookalikes, 'blank_before_time_zero_marker': blank_before_marker,
            'cseed': rng.getrandbits(30), 'names': G.all_value_names(spec) + [d['name'] for d in spec['decos']]}


class C14(object):
    id = 'C14'
    anchors = ('EquationParser.ParseString', 'Model._FinalEquationFormatting', 'Sector._CreateFinalEquations')
    title = 'Equation text is classified faithfully; comments are inert'
    rule = ('one case = one equation block (1-25 lines of known class: simultaneous, alias, derived, constant, time, '
            'lag in three spellings, initial condition, exogenous list/tuple/expression/scalar after one of seven '
            'marker spellings, MaxTime/Err_Tolerance anywhere, 0-2 malformed lines, comment and blank lines) parsed '
            'by the real EquationParser without comments, with plain and with hostile trailing comments (containing '
            "=, #, digits, (0), (k-1), the word exogenous); lists must equal the by-construction classification with "
            'right-hand sides equal under 3 valuations, identical across comment variants; malformed lines must be '
            'reported or raise and appear in no list; model-level cases rebuild one model with hostile descriptions / '
            'long names and compare equations and series; distinct = hash of the block; non-trivial = >= 3 classes '
            'present')
    assumptions = ["variable names never contain the word 'exogenous'", 'descriptions are single-line texts',
                   'a whole-line comment containing the marker word IS the marker (the model emits it that way)']
    required_counters = ('block.judged', 'lines.judged', 'hostile_variant.judged', 'malformed.judged', 'bad_run_parameter.judged', 'reused_parser.judged',
                         'block.judged.with_initial_condition_on_default_time_axis',
                         'block.judged.with_names_differing_from_reserved_ones_by_case', 'block.judged.with_indented_comment_marker',
                         'model_desc.judged',
                         'block.judged.with_expressions_that_look_like_lag_spellings',
                         'reused_parser.after_a_failed_parse',
                         'model_desc.builds_with_log_files_registered',
                         'run_parameters_on_reused_solver.judged',
                         'block.judged.with_a_blank_between_name_and_time_zero_marker',
                         'reserved_name_line_read_by_a_solver.judged')

    def n_cases(self, tier):
        return 300 if tier == 'quick' else 20000

    def make_case(self, rng, idx, tier):
        if idx % 25 == 12:
            # the run-parameter class at the level where it takes effect: a block with its own Err_Tolerance / MaxTime lines is
            # read by a solver object that has already read AND solved another block with other run parameters
            a = round(rng.uniform(0.3, 0.9), 2)
            return {'kind': 'run_parameters_on_reused_solver', 'a': a, 'c': round(rng.uniform(0.1, 0.9), 2), 'g': float(rng.randint(5, 40)),
                    'tol_first': rng.choice([0.5, 0.1, None]), 'tol_second': rng.choice(['1e-9', '1e-6', '0.001', '0.2']),
                    'maxtime_first': rng.randint(2, 9), 'maxtime_second': rng.randint(2, 9), 'reduce': rng.random() < 0.5,
                    'comment': rng.choice(['', ' # tolerance = 5', ' # exogenous'])}
        if idx % 25 == 24:
            case = {'kind': 'model_desc', 'hseed': rng.getrandbits(30), 'with_log_files': (idx // 25) % 2 == 0,
                    'builder': rng.choice(['SIM', 'PC', 'SIMEX1', 'SPEC', 'SPEC']), 'maxtime': 4}
            if case['builder'] == 'SPEC':
                from vf.gen import modelspec as M
                case['mspec'] = M.gen_spec(rng, n_zones=rng.choice([1, 2]), maxtime=3)
            return case
        return gen_case(rng, idx)

    # ------------------------------------------------------------------------------------------
    def parse(self, text):
        from sfc_models.equation_parser import EquationParser
        p = EquationParser()
        msg = p.ParseString(text)
        return p, msg

    def lists_of(self, p):
        return {'endo': [tuple(x) for x in p.Endogenous], 'lag': [tuple(x) for x in p.Lagged],
                'exo': [tuple(x) for x in p.Exogenous], 'ic': dict(p.InitialConditions),
                'maxtime': p.MaxTime, 'tol': p.Err_Tolerance}

    def run_reused_solver(self, case):
        from sfc_models.equation_solver import EquationSolver
        rec = monitors.Recorder()
        first = 'x = 0.9*x + 0.05*LAG_x + 3.\nLAG_x = x(k-1)\nx(0) = 1.\nMaxTime = %d\n' % case['maxtime_first']
        if case['tol_first'] is not None:
            first += 'Err_Tolerance = %r\n' % case['tol_first']
        second = ('x = %r*x + %r*LAG_y + g\ny = %r*x\nLAG_y = y(k-1)\nx(0) = 1.\ny(0) = 2.\nErr_Tolerance = %s%s\nMaxTime = %d\nexogenous\ng = [%r]*20'
                  % (case['a'], round((1 - case['a']) / 2, 3), case['c'], case['tol_second'], case['comment'], case['maxtime_second'], case['g']))

        def solve(prehistory):
            with contextlib.redirect_stdout(io.StringIO()):
                sv = EquationSolver(run_equation_reduction=case['reduce'])
                if prehistory:
                    sv.ParseString(first)
                    sv.SolveEquation()
                sv.ParseString(second)
                sv.SolveEquation()
            return sv
        try:
            fresh = solve(False)
        except Exception as e:
            return {'verdict': 'notjudged', 'shape': 'reused_solver|' + type(e).__name__, 'obs': {'err': repr(e)[:200]}}
        try:
            used = solve(True)
        except Exception as e:
            rec.violate('reused_solver_fails', {'err': repr(e)[:300], 'second_block': second})
            return {'verdict': 'violated', 'shape': 'reused_solver', 'counters': rec.counters, 'violations': rec.violations}
        rec.count('run_parameters_on_reused_solver.judged')
        fa, fb = dict(fresh.TimeSeries), dict(used.TimeSeries)
        if sorted(fa) != sorted(fb):
            rec.violate('run_parameter_of_later_block_not_honoured', {'series_only_fresh': sorted(set(fa) - set(fb)), 'series_only_reused': sorted(set(fb) - set(fa))})
        else:
            for n in sorted(fa):
                if repr(list(fa[n])) != repr(list(fb[n])):
                    rec.violate('run_parameter_of_later_block_not_honoured',
                                {'series': n, 'fresh_solver': list(fa[n])[:6], 'solver_that_solved_another_block_before': list(fb[n])[:6],
                                 'Err_Tolerance_line_of_this_block': case['tol_second'], 'Err_Tolerance_of_the_earlier_block': case['tol_first'],
                                 'MaxTime_lines': [case['maxtime_first'], case['maxtime_second']]})
                    break
        if not rec.violations and len(fa['x']) != case['maxtime_second'] + 1:
            rec.violate('maxtime_wrong', {'got_points': len(fa['x']), 'MaxTime_line': case['maxtime_second']})
        return {'verdict': 'violated' if rec.violations else 'held', 'nontrivial': True, 'shape': 'reused_solver',
                'counters': rec.counters, 'violations': rec.violations}

    def run_case(self, case):
        if case['kind'] == 'model_desc':
            return self.run_model_desc(case)
        if case['kind'] == 'run_parameters_on_reused_solver':
            return self.run_reused_solver(case)
        rec = monitors.Recorder()
        rng = random.Random(case['cseed'])
        if case['cseed'] % 5 == 0:
            # malformed run parameters are reported (an exception), never silently mis-read
            base_text = build_text(case, 'none')
            for bad in ('MaxTime = soon', 'MaxTime = 3.5', 'Err_Tolerance = tiny', 'MaxTime = 10 # ok\nMaxTime = ten'):
                try:
                    p_, msg_ = self.parse(base_text + '\n' + bad)
                    outcome = 'accepted'
                except ValueError:
                    outcome = 'ValueError'
                except Exception as e:
                    outcome = type(e).__name__
                rec.count('bad_run_parameter.judged')
                if outcome == 'accepted' and bad.split('\n')[-1] not in msg_:
                    rec.violate('malformed_run_parameter_not_reported', {'line': bad, 'maxtime_read': p_.MaxTime,
                                                                         'tolerance_read': p_.Err_Tolerance})
        if case['cseed'] % 5 == 1:
            # a line that defines the solver's own step counter (or another reserved name) is reported by the solver object that reads
            # the block - with equation reduction on or off - and never read as an ordinary equation
            from sfc_models.equation_solver import EquationSolver as _ES
            base_text = build_text(case, 'none')
            x_ = case['names'][0]
            for bad in ('k = 0.25*%s' % x_, 'k = 2.0', 'lambda = 0.5*%s' % x_):
                for red_ in (True, False):
                    outcome = 'accepted'
                    try:
                        with contextlib.redirect_stdout(io.StringIO()):
                            sv_ = _ES(run_equation_reduction=red_)
                            sv_.ParseString(bad + '\n' + base_text)
                    except Exception as e:
                        outcome = type(e).__name__
                    rec.count('reserved_name_line_read_by_a_solver.judged')
                    if outcome == 'accepted':
                        rec.violate('line_defining_a_reserved_name_not_reported', {'line': bad, 'equation_reduction': red_})
                        break
        variants = {}
        for mode in ('none', 'plain', 'hostile'):
            text = build_text(case, mode)
            try:
                p, msg = self.parse(text)
            except Exception as e:
                rec.violate('well_formed_block_rejected', {'mode': mode, 'text': text, 'err': repr(e)})
                return self.result(case, rec)
            variants[mode] = (self.lists_of(p), msg, text)
        base, msg, text = variants['none']
        rec.count('block.judged')
        if case.get('ic_on_default_time'):
            rec.count('block.judged.with_initial_condition_on_default_time_axis')
        if case.get('case_variants'):
            rec.count('block.judged.with_names_differing_from_reserved_ones_by_case')
        if case.get('lag_lookalikes'):
            rec.count('block.judged.with_expressions_that_look_like_lag_spellings')
        if case.get('blank_before_time_zero_marker'):
            rec.count('block.judged.with_a_blank_between_name_and_time_zero_marker')
        if any(ln['kind'] == 'marker' and ln['text'] != ln['text'].lstrip() and ln['text'].lstrip().startswith('#') for ln in case['lines']):
            rec.count('block.judged.with_indented_comment_marker')
        # a parser object that has already read another block (with an exogenous section and its own time variable)
        # classifies this one exactly like a fresh parser
        from sfc_models.equation_parser import EquationParser
        used = EquationParser()
        try:
            first_block = 't = k + 1990.\nzz_a = 0.5*zz_a + zz_g\nzz_l = zz_a(k-1)\nzz_a(0) = 2.\nMaxTime = 77\nErr_Tolerance = 0.5\nexogenous\nzz_g = [1.]*80'
            if case['cseed'] % 3 == 0:
                # ... and whose parse FAILED (a bad run parameter after the exogenous marker); the caller caught that
                try:
                    used.ParseString(first_block + '\nMaxTime = soon')
                except ValueError:
                    rec.count('reused_parser.after_a_failed_parse')
            else:
                used.ParseString(first_block)
            msg2 = used.ParseString(text)
            again = self.lists_of(used)
        except Exception as e:
            rec.violate('reused_parser_fails', {'err': repr(e), 'text': text[:800]})
            return self.result(case, rec)
        rec.count('reused_parser.judged')
        if again != base:
            diff = [k for k in base if base[k] != again[k]]
            rec.violate('reused_parser_classifies_differently', {'differs_in': diff, 'fresh': {k: base[k] for k in diff},
                                                                 'reused': {k: again[k] for k in diff}, 'text': text[:800]})
            return self.result(case, rec)
        # comment inertness
        for mode in ('plain', 'hostile'):
            rec.count('hostile_variant.judged' if mode == 'hostile' else 'plain_variant.judged')
            if variants[mode][0] != base:
                diff = [k for k in base if base[k] != variants[mode][0][k]]
                rec.violate('comment_changed_classification',
                            {'mode': mode, 'differs_in': diff, 'text': variants[mode][2][:1500],
                             'base': {k: base[k] for k in diff}, 'variant': {k: variants[mode][0][k] for k in diff}})
                return self.result(case, rec)
        # by-construction classification
        exp = case['expected']
        exp_names = {'endo': [], 'lag': [], 'exo': [], 'ic': []}
        for cls, name, rhs in exp:
            exp_names[cls].append(name)
        got_names = {'endo': [n for n, _ in base['endo']], 'lag': [n for n, _ in base['lag']],
                     'exo': [n for n, _ in base['exo']], 'ic': list(base['ic'].keys())}
        if not case['has_time']:
            exp_names['endo'].append('t')
        for cls in exp_names:
            if sorted(exp_names[cls]) != sorted(got_names[cls]):
                rec.violate('line_in_wrong_class', {'class': cls, 'expected': sorted(exp_names[cls]),
                                                    'got': sorted(got_names[cls]), 'text': text[:1500]})
                return self.result(case, rec)
        if not case['has_time'] and ('t', 'k') not in [(n, r.strip()) for n, r in base['endo']]:
            rec.violate('time_variable_not_supplied', {'endo': base['endo'][:10]})
        if case['has_time'] and got_names['endo'].count('t') != 1:
            rec.violate('time_variable_duplicated', {'endo': base['endo'][:10]})
        if base['maxtime'] != case['maxtime']:
            rec.violate('maxtime_wrong', {'got': base['maxtime'], 'expected': case['maxtime']})
        if case['tol'] is not None and float(base['tol']) != case['tol']:
            rec.violate('tolerance_wrong', {'got': base['tol'], 'expected': case['tol']})
        # right-hand sides unchanged in meaning
        got_rhs = {('endo', n): r for n, r in base['endo']}
        got_rhs.update({('lag', n): r for n, r in base['lag']})
        got_rhs.update({('exo', n): r for n, r in base['exo']})
        got_rhs.update({('ic', n): r for n, r in base['ic'].items()})
        for cls, name, rhs in exp:
            g = got_rhs[(cls, name)]
            rec.count('lines.judged')
            if cls == 'lag':
                if g.strip() != rhs:
                    rec.violate('lag_source_wrong', {'var': name, 'got': g, 'expected': rhs})
                continue
            for _ in range(3):
                env = vals_for(case['names'], rng)
                try:
                    a = G.ev(rhs, env)
                    b = G.ev(g, env)
                except Exception as e:
                    rec.violate('rhs_unevaluable', {'var': name, 'got': g, 'expected': rhs, 'err': repr(e)})
                    break
                if a != b:
                    rec.violate('rhs_meaning_changed', {'class': cls, 'var': name, 'got': g, 'expected': rhs})
                    break
        # malformed lines are reported, never classified
        for m in case['malformed']:
            rec.count('malformed.judged')
            key = m.split('=')[0].strip()
            if m not in msg and m.strip() not in msg:
                rec.violate('malformed_line_not_reported', {'line': m, 'msg': msg[:500]}, mechanism='malformed_silent')
            everywhere = got_names['endo'] + got_names['lag'] + got_names['exo'] + got_names['ic']
            if key in everywhere and key not in case['names']:
                rec.violate('malformed_line_classified', {'line': m, 'as': [c for c in got_names if key in got_names[c]]},
                            mechanism='malformed_silent')
        return self.result(case, rec)

    def result(self, case, rec):
        classes = set(c for c, _, _ in case['expected'])
        return {'verdict': 'violated' if rec.violations else 'held', 'nontrivial': len(classes) >= 3,
                'shape': '+'.join(sorted(classes)) + ('|malformed' if case['malformed'] else ''),
                'counters': rec.counters, 'violations': rec.violations,
                'obs': {'text': build_text(case, 'hostile')[:600]}}

    # ------------------------------------------------------------------------------------------
    def run_model_desc(self, case):
        from vf import ambient
        rec = monitors.Recorder()
        r = random.Random(case['hseed'])

        def build(hostile):
            if case['builder'] == 'SPEC':
                from vf.gen import modelspec as M
                bb = M.build(case['mspec'], solve=False)
                if bb.error is not None:
                    raise bb.error
                mod = bb.model
            else:
                cls = ambient.book_builders()[case['builder']]
                b = cls(country_code='C1')
                mod = b.build_model()
                mod.MaxTime = case['maxtime']
            rr = random.Random(case['hseed'])
            for sec in mod.GetSectors():
                if hostile:
                    sec.LongName = rr.choice(HOSTILE)
                    for v in list(sec.EquationBlock.GetEquationList()):
                        if rr.random() < 0.6:
                            sec.EquationBlock[v].Description = rr.choice(HOSTILE)
                sec.AddVariable('XTRA', rr.choice(HOSTILE) if hostile else 'extra', '2.0')
                # the one-string forms of the API: 'name # text' (a bare declaration) and 'name = rhs # text'
                sec.AddVariableFromEquation('DECL_ONLY # ' + (rr.choice(HOSTILE) if hostile else 'a bare declaration'))
                sec.AddVariableFromEquation('WITH_RHS = 1.5*XTRA # ' + (rr.choice(HOSTILE) if hostile else 'a plain text'))
                # a WIDE right-hand side (> 80 characters once the full names are substituted) whose description
                # carries the marker word
                sec.AddVariable('WIDE', ('these EXOGENOUS looking words: exogenous variables follow (0) (k-1)' if hostile
                                         else 'a wide row'), ' + '.join(['0.125*XTRA'] * 14))
            if hostile:
                mod.CountryList[0].LongName = rr.choice(HOSTILE)
            if case.get('with_log_files'):
                # the usual way of running a model script: log files are registered, so the model's dump of every sector (with
                # the users' free texts) and the final equations go through the logging helper
                import tempfile, shutil
                from sfc_models.utils import Logger
                d = tempfile.mkdtemp(prefix='vf_c14_')
                Logger.cleanup()
                Logger.register_standard_logs(d + '/m')
                try:
                    with contextlib.redirect_stdout(io.StringIO()):
                        mod.main()
                finally:
                    Logger.cleanup()
                    shutil.rmtree(d, ignore_errors=True)
                rec.count('model_desc.builds_with_log_files_registered')
                return mod
            with contextlib.redirect_stdout(io.StringIO()):
                mod.main()
            return mod
        try:
            plain = build(False)
        except Exception as e:
            return {'verdict': 'notjudged', 'shape': 'model_desc|base_failed', 'obs': {'err': repr(e)}}
        try:
            host = build(True)
        except Exception as e:
            rec.violate('description_broke_model', {'builder': case['builder'], 'err': repr(e)})
            return {'verdict': 'violated', 'shape': 'model_desc', 'counters': rec.counters, 'violations': rec.violations}
        rec.count('model_desc.judged')
        a, b = dict(plain.EquationSolver.TimeSeries), dict(host.EquationSolver.TimeSeries)
        if sorted(a) != sorted(b):
            rec.violate('description_changed_equation_set', {'only_plain': sorted(set(a) - set(b))[:10],
                                                             'only_hostile': sorted(set(b) - set(a))[:10]})
        else:
            for n in a:
                if repr(a[n]) != repr(b[n]):
                    rec.violate('description_changed_solution', {'var': n, 'plain': a[n][:5], 'hostile': b[n][:5]})
                    break
        return {'verdict': 'violated' if rec.violations else 'held', 'nontrivial': True, 'shape': 'model_desc',
                'counters': rec.counters, 'violations': rec.violations,
                'obs': {'builder': case['builder'], 'n_series': len(a)}}


PROP = C14()
