"""C20 - the generated stand-alone solver agrees with the in-process solver."""
import contextlib
import importlib.util
import io
import os
import shutil
import sys
import tempfile

from vf import monitors
from vf.gen import eqsys as G
from vf.oracle import block as B


class C20(object):
    id = 'C20'
    anchors = ('IterativeMachineGenerator.main', 'IterativeMachineGenerator.GenerateFile', 'IterativeMachineGenerator.GenerateFunction', 'IterativeMachineGenerator.GeneratePackVars', 'BaseSolver.CreateCsvString')
    title = 'Generated stand-alone solver agrees with the in-process solver'
    rule = ('one case = one contraction block (factor <= 0.8; with or without a user-defined time variable, lags, '
            'initial conditions on every simultaneous variable, exogenous lists/tuples/expressions, constants, aliases, '
            'derived variables; generator reduction flag on/off) handed to the real IterativeMachineGenerator.main(), '
            'the written file imported and run; for k>=1 the residual monitor judges the block equations on the '
            "module's own series (lags from its own k-1, exogenous == supplied), series are compared with the in-process "
            'solver (same k=0 values) within the two tolerances, and the header of CreateCsvString() must start with t and '
            'name every non-lagged variable once; distinct = hash of block; non-trivial = module ran and >= 1 lag or '
            'exogenous variable present')
    assumptions = ["variable names do not collide with the template's own identifiers (STEP, main, err, cnt, ...)",
                   'exogenous variables are lists/tuples/list expressions (the template slices them)',
                   'tolerance line 1e-6..1e-9, default cap 400 of the template']
    required_counters = ('module.ran', 'module.ran.with_variables_named_like_template_locals', 'module.ran.with_variable_T_next_to_t', 'module.ran.with_own_time_variable_and_lagged_step_counter', 'equations_judged', 'vs_inprocess.compared', 'header.judged',
                         'module.without_user_time', 'generator.reused', 'bundled.ran',
                         'module.ran.with_expressions_that_look_like_lag_spellings',
                         'generator.warning_raised_and_caught',
                         'module.ran.driven_in_stages',
                         'module.ran.with_lag_of_a_synonym_under_generator_reduction',
                         'module.reported_non_convergence_of_a_slow_block',
                         'generator.refused_a_block_that_defines_the_step_counter',
                         'module.ran.with_math_functions_in_an_exogenous_path')

    def n_cases(self, tier):
        return 120 if tier == 'quick' else 6000

    def make_case(self, rng, idx, tier):
        if idx == 0:
            return {'kind': 'bundled', 'name': 'SIM'}
        if idx % 12 == 11:
            # the block defines the step counter k itself (a calendar axis): the generator may refuse it (the name is reserved) - if it
            # accepts it, the module has to honour it like any other block
            T = rng.randint(2, 5)
            start = rng.choice([2010.0, 1990.0, 0.5])
            text = ('k = LAG_k + 0.25\nLAG_k = k(k-1)\nk(0) = %r\nx = 0.5*x + 0.01*t\nMaxTime = %d\nErr_Tolerance = 1e-9' % (start, T))
            spec = {'maxtime': T, 'time': None, 'exos': [], 'tol': 1e-9, 'rho': 0.5, 'lags': [1], 'simul': [], 'decos': []}
            return {'kind': 'block', 'spec': spec, 'text': text, 'gen_reduction': rng.random() < 0.5, 'reuse': None, 'drive': 'main',
                    'may_be_refused': True}
        if idx % 12 == 7:
            # a loop gain close to one: the module's plain iteration may run out of passes - it may then stop with a report of
            # non-convergence, but it may not hand back values that violate the block
            gain = rng.choice([0.98, 0.99, 0.97])
            T = rng.randint(2, 4)
            g = [float(rng.randint(10, 30)) for _ in range(T + 2)]
            text = 'Y = C + G\nC = %r*Y\nH = LAG_H + 0.125*Y\nLAG_H = H(k-1)\nMaxTime = %d\nErr_Tolerance = 1e-9\nexogenous\nG = %r' % (gain, T, g)
            spec = {'maxtime': T, 'time': None, 'exos': [{'name': 'G', 'values': g}], 'tol': 1e-9, 'rho': gain, 'lags': [1], 'simul': [], 'decos': []}
            return {'kind': 'block', 'spec': spec, 'text': text, 'gen_reduction': rng.random() < 0.5, 'reuse': None, 'drive': 'main',
                    'may_report_non_convergence': True}
        spec = G.gen_affine(rng, rho=rng.choice([0.2, 0.5, 0.8]), tol=rng.choice([1e-6, 1e-8, 1e-9]),
                            maxtime=rng.randint(1, 10), ics=False, const_scale=rng.choice([1.0, 10.0, 100.0]))
        for e in spec['exos']:
            if e['form'] == 'scalar':
                e['form'] = 'list'
                e['text'] = repr(e['values'])
        xs = [s_['name'] for s_ in spec['simul']]
        for s in spec['simul']:
            spec['ics'][s['name']] = G.nice(rng, -3.0, 9.0)
            if spec['rho'] <= 0.5 and rng.random() < 0.3:
                # the block language offers every name of the math module (Lipschitz constants <= 0.05)
                a, b_ = rng.choice(xs), rng.choice(xs)
                s['nl'] = rng.choice(['0.05*tanh({a})', '0.05*log1p(abs({a}))', '0.05*atan2({a}, 1.0 + abs({b}))',
                                      '0.05*hypot({a}, 1.0)/(1.0 + abs({a}))', '0.05*asinh(0.1*{a})/(1 + {a}*{a})',
                                      '0.05*erf({a})', '0.05*expm1(-abs({a}))', '0.02*fabs({a}) + 0.01*degrees(0.1)',
                                      '0.05*copysign(1.0, {a})*log2(1 + abs({a}))/(1 + abs({a}))']).format(a=a, b=b_)
        for c in spec['consts']:
            if rng.random() < 0.6:
                spec['ics'][c['name']] = c['value'] + rng.choice([1.0, -0.5, 2.0])   # k=0 differs from the literal
        spec['style']['comments'] = False
        if idx % 12 == 3 and spec['exos']:
            # an exogenous path written with functions of the math module (the block language offers them in every part of a block)
            e0 = spec['exos'][0]
            e0['text'] = '[sqrt(4.0)*%r, exp(0.0)*%r] + %r' % (e0['values'][0] / 2.0, e0['values'][1], list(e0['values'][2:]))
            e0['form'] = 'expr'
        case = {'kind': 'block', 'spec': spec, 'text': G.render(spec), 'gen_reduction': rng.random() < 0.5,
                'math_in_exogenous_path': idx % 12 == 3 and bool(spec['exos']),
                'reuse': rng.choice([None, None, 'main_twice', 'other_block_first', 'generate_equations_first'])}
        if idx % 4 == 2 and 'T' not in G.all_value_names(spec) + [d['name'] for d in spec['decos']]:
            # textbook notation: a variable T (taxes) next to the time axis t - names that differ only by case
            case['text'] = 'T = 0.25*%s + 1.0\nK_cap = 0.5*T\n' % xs[0] + case['text']
            case['case_variant_of_time_axis'] = True
        if idx % 4 == 3 and spec['time'] is None and 't' not in case['text'].split('MaxTime')[0].replace('\n', ' ').split():
            # the user's own time variable (not built on k) while the step counter k is used only through a lag
            case['text'] = 't = LAG_tt + 0.25\nLAG_tt = t(k-1)\nLAG_kk = k(k-1)\nuk_v = 0.5*LAG_kk + 1.0\n' + case['text']
            case['own_time_and_lagged_k'] = True
        if idx % 4 == 0:
            # function calls whose argument is written 't - 1' / 'k - 1' (with spaces: NOT the lag spelling)
            case['text'] = 'zl_ramp = tanh(t - 1)\nzl_step = max(k - 1, 0.0) + %s*(-1)\n' % xs[0] + case['text']
            case['lag_lookalikes'] = True
        if idx % 4 == 1:
            # model variables named like the locals of the generated step function
            case['text'] = 'err = 0.5*%s - 1.0\ncnt = 2.0*%s + 3.0\nnew_vector = 0.25*err\n' % (xs[0], xs[0]) + case['text']
            case['template_local_names'] = True
        if idx % 8 == 4:
            # a pure synonym of a state that starts away from zero, its own lag, and a user of that lag - emitted by a generator
            # that runs the equation reduction (which substitutes synonyms)
            # (the synonym has no initial condition: the module starts it at 0.0, the in-process solver at its target's k=0 value, so
            # use_syn in period 1 is outside the "same k=0 values" comparison; the residual monitor judges it on the module's own lag)
            case['text'] = 'syn_m = %s\nLAG_syn = syn_m(k-1)\nuse_syn = 0.5*LAG_syn + 1.0\n' % xs[0] + case['text']
            case['gen_reduction'] = True
            case['lagged_synonym'] = True
        case['drive'] = {2: 'steps_then_main', 4: 'main_twice', 5: 'paused_and_resumed'}.get(idx % 6, 'main')
        if idx % 8 == 6:
            # warnings are errors in this process: the generator's report about an ignored line is RAISED while it reads the
            # second block; the caller catches it and emits the module anyway
            case['reuse'] = 'warning_raised_while_reading_second_block'
            case['text'] = 'zz_bad = %s(k-1) + 1\n' % xs[0] + case['text']
        if case['reuse'] in ('other_block_first', 'warning_raised_while_reading_second_block'):
            other = G.gen_affine(rng, rho=0.5, tol=1e-8, maxtime=rng.randint(1, 4), ics=False)
            for e in other['exos']:
                if e['form'] == 'scalar':
                    e['form'] = 'list'
                    e['text'] = repr(e['values'])
            other['style']['comments'] = False
            case['other_text'] = G.render(other)
        return case

    def run_bundled(self, case):
        """The block bundled in deprecated/GL_machine_generated.py, generated through its own build_model()."""
        from sfc_models.deprecated import GL_machine_generated as GL
        from sfc_models.equation_solver import EquationSolver
        rec = monitors.Recorder()
        text = GL.model_list[case['name']]
        tmp = tempfile.mkdtemp(prefix='vf_c20_')
        modname = 'vf_generated_bundled_%s' % case['name']
        path = os.path.join(tmp, modname + '.py')
        try:
            try:
                with contextlib.redirect_stdout(io.StringIO()):
                    gen = GL.build_model(case['name'])
                    gen.main(path)
                    sp = importlib.util.spec_from_file_location(modname, path)
                    mod = importlib.util.module_from_spec(sp)
                    sp.loader.exec_module(mod)
                    obj = mod.SFCModel()
                    obj.main()
            except Exception as e:
                rec.violate('generated_module_does_not_run', {'err': repr(e)[:300], 'bundled': case['name']},
                            mechanism='module_does_not_run')
                return self.done(rec, 'bundled', False)
            rec.count('module.ran')
            rec.count('bundled.ran')
            blk = B.split_block(text)
            T = int(blk['maxtime'])
            names = [n for n, _ in blk['endo']] + [n for n, _ in blk['exo']]
            series = {n: list(getattr(obj, n)) for n in names}
            for n, src in blk['lag']:
                series[n] = [0.0] + series[src][:-1]
            series['k'] = [float(i) for i in range(T + 1)]
            viol, stats = B.check_solution(blk, series, 1e-8)
            rec.count('equations_judged', stats['equations_judged'])
            for v in viol[:3]:
                rec.violate('module_' + v['kind'], v['detail'])
            s = EquationSolver(run_equation_reduction=False)
            with contextlib.redirect_stdout(io.StringIO()):
                s.ParseString(text)
                s.SolveEquation()
            rec.count('vs_inprocess.compared')
            for n in names:
                for k in range(1, T + 1):
                    a, b_ = series[n][k], s.TimeSeries[n][k]
                    if not abs(a - b_) <= 1e-4 * max(1.0, abs(a)):
                        rec.violate('module_differs_from_inprocess_solver', {'var': n, 'k': k, 'module': a, 'inprocess': b_})
                        break
            rec.count('header.judged')
            head = obj.CreateCsvString().split('\n')[0].split('\t')
            if head[0] != 't' or len(set(head)) != len(head) or not set(names) <= set(head):
                rec.violate('module_header_wrong', {'header': head})
            return self.done(rec, 'bundled', True, nontrivial=True, obs={'bundled': case['name'], 'horizon': T,
                                                                        'Y_last': series['Y'][-1]})
        finally:
            sys.modules.pop(modname, None)
            shutil.rmtree(tmp, ignore_errors=True)

    def run_case(self, case):
        if case['kind'] == 'bundled':
            return self.run_bundled(case)
        from sfc_models.deprecated.iterative_machine_generator import IterativeMachineGenerator
        from sfc_models.equation_solver import EquationSolver
        rec = monitors.Recorder()
        spec = case['spec']
        T = spec['maxtime']
        tmp = tempfile.mkdtemp(prefix='vf_c20_')
        modname = 'vf_generated_%d' % (abs(hash(case['text'])) % 10 ** 9)
        path = os.path.join(tmp, modname + '.py')
        shape = 'block|' + ('usertime' if spec['time'] else 'defaulttime')
        try:
            try:
                with contextlib.redirect_stdout(io.StringIO()):
                    reuse = case.get('reuse')
                    if reuse == 'other_block_first':
                        # one generator object emitting more than one module
                        gen = IterativeMachineGenerator(case['other_text'], run_equation_reduction=case['gen_reduction'])
                        gen.main(os.path.join(tmp, 'first_module.py'))
                        gen.ParseString(case['text'])
                    elif reuse == 'warning_raised_while_reading_second_block':
                        import warnings
                        gen = IterativeMachineGenerator(case['other_text'], run_equation_reduction=case['gen_reduction'])
                        gen.main(os.path.join(tmp, 'first_module.py'))
                        with warnings.catch_warnings():
                            warnings.simplefilter('error')
                            try:
                                gen.ParseString(case['text'])
                            except Warning:
                                rec.count('generator.warning_raised_and_caught')
                    else:
                        gen = IterativeMachineGenerator(case['text'], run_equation_reduction=case['gen_reduction'])
                    if reuse == 'main_twice':
                        gen.main(os.path.join(tmp, 'first_module.py'))
                    elif reuse == 'generate_equations_first':
                        gen.GenerateEquations()
                    gen.main(path)
                    if reuse:
                        rec.count('generator.reused')
            except Exception as e:
                if case.get('may_be_refused') and isinstance(e, NameError):
                    rec.count('generator.refused_a_block_that_defines_the_step_counter')
                    return self.done(rec, shape, False, nontrivial=True, obs={'outcome': repr(e)[:100]})
                rec.violate('generator_failed', {'err': repr(e)[:300], 'text': case['text']})
                return self.done(rec, shape, False)
            try:
                sp = importlib.util.spec_from_file_location(modname, path)
                mod = importlib.util.module_from_spec(sp)
                with contextlib.redirect_stdout(io.StringIO()):
                    sp.loader.exec_module(mod)
                    obj = mod.SFCModel()
                    drive = case.get('drive', 'main')
                    if drive == 'steps_then_main':
                        # the first periods are stepped one at a time (a caller inspecting them), main() finishes the run
                        for _ in range(min(2, T)):
                            obj.RunOneStep()
                        obj.main()
                    elif drive == 'main_twice':
                        obj.main()
                        obj.main()
                    elif drive == 'paused_and_resumed' and T >= 2:
                        full = obj.MaxTime
                        obj.MaxTime = 1
                        obj.main()
                        obj.MaxTime = full
                        obj.main()
                    else:
                        drive = 'main'
                        obj.main()
                    if drive != 'main':
                        rec.count('module.ran.driven_in_stages')
            except Exception as e:
                if case.get('may_report_non_convergence') and isinstance(e, (ValueError, AssertionError, ArithmeticError)) and 'onverg' in str(e):
                    rec.count('module.reported_non_convergence_of_a_slow_block')
                    return self.done(rec, shape, True, nontrivial=True, obs={'outcome': repr(e)[:100]})
                rec.violate('generated_module_does_not_run', {'err': repr(e)[:300], 'text': case['text'],
                                                              'user_time': bool(spec['time'])},
                            mechanism='module_does_not_run')
                return self.done(rec, shape, False)
            rec.count('module.ran')
            if case.get('case_variant_of_time_axis'):
                rec.count('module.ran.with_variable_T_next_to_t')
            if case.get('template_local_names'):
                rec.count('module.ran.with_variables_named_like_template_locals')
            if case.get('lag_lookalikes'):
                rec.count('module.ran.with_expressions_that_look_like_lag_spellings')
            if case.get('own_time_and_lagged_k'):
                rec.count('module.ran.with_own_time_variable_and_lagged_step_counter')
            if case.get('lagged_synonym'):
                rec.count('module.ran.with_lag_of_a_synonym_under_generator_reduction')
            if case.get('math_in_exogenous_path'):
                rec.count('module.ran.with_math_functions_in_an_exogenous_path')
            if not spec['time']:
                rec.count('module.without_user_time')
            # collect the module's series
            blk = B.split_block(case['text'])
            names = [n for n, _ in blk['endo']] + [n for n, _ in blk['exo']]
            series = {}
            for n in names:
                if not hasattr(obj, n):
                    rec.violate('variable_missing_in_module', {'var': n})
                    return self.done(rec, shape, True)
                series[n] = list(getattr(obj, n))
                if len(series[n]) != T + 1:
                    rec.violate('module_series_length', {'var': n, 'len': len(series[n]), 'horizon': T})
                    return self.done(rec, shape, True)
            series['k'] = [float(i) for i in range(T + 1)]
            for n, src in blk['lag']:
                series[n] = [0.0] + series[src][:-1]      # lags from its own previous period
            for e in spec['exos']:
                if series[e['name']] != list(e['values'][:T + 1]):
                    rec.violate('module_exogenous_not_supplied', {'var': e['name'], 'got': series[e['name']][:6]})
            tol = spec['tol']
            viol, stats = B.check_solution(blk, series, tol)
            rec.count('equations_judged', stats['equations_judged'])
            for v in viol[:3]:
                v['detail']['text'] = case['text']
                rec.violate('module_' + v['kind'], v['detail'])
            # differential with the in-process solver (same k=0 values for everything that is lagged)
            s = EquationSolver(run_equation_reduction=False)
            s.MaxIterations = 4000
            try:
                with contextlib.redirect_stdout(io.StringIO()):
                    s.ParseString(case['text'])
                    s.SolveEquation()
                ok = True
            except ValueError:
                ok = False
            if ok:
                rec.count('vs_inprocess.compared')
                worst = 0.0
                for n in names:
                    for k in range(1, T + 1):
                        if case.get('lagged_synonym') and n == 'use_syn' and k == 1:
                            continue
                        a, b = series[n][k], s.TimeSeries[n][k]
                        lim = 1e3 * tol * max(1.0, abs(a), abs(b)) / (1.0 - spec['rho'])
                        worst = max(worst, abs(a - b) / lim)
                        if not abs(a - b) <= lim:
                            rec.violate('module_differs_from_inprocess_solver',
                                        {'var': n, 'k': k, 'module': a, 'inprocess': b, 'tol': tol, 'text': case['text']})
                            break
                    if rec.violations:
                        break
            # header
            rec.count('header.judged')
            try:
                head = obj.CreateCsvString().split('\n')[0].split('\t')
            except Exception as e:
                rec.violate('module_table_fails', {'err': repr(e)[:200]})
                head = None
            if head is not None:
                expected = set(names) | {'k'}
                if head[0] != 't' or len(set(head)) != len(head) or not (set(names) <= set(head) <= expected):
                    rec.violate('module_header_wrong', {'header': head, 'expected_names': sorted(names)})
            return self.done(rec, shape, True, nontrivial=bool(spec['lags'] or spec['exos']),
                             obs={'horizon': T, 'n_vars': len(names), 'worst_residual_ratio': stats['worst_ratio'],
                                  'header': head[:8] if head else None})
        finally:
            sys.modules.pop(modname, None)
            shutil.rmtree(tmp, ignore_errors=True)

    def done(self, rec, shape, ran, nontrivial=False, obs=None):
        return {'verdict': 'violated' if rec.violations else 'held', 'nontrivial': nontrivial or bool(rec.violations),
                'shape': shape, 'counters': rec.counters, 'violations': rec.violations, 'obs': obs}


PROP = C20()
