"""C16 - reading results never changes them."""
import contextlib
import copy
import io
import random

from vf import monitors
from vf.gen import eqsys as G
from vf.runner import chash


def gen_history(rng, n_series, length):
    ops = []
    for _ in range(rng.randint(2, 30)):
        r = rng.random()
        if r < 0.55:
            ops.append({'op': 'get', 'series': rng.randrange(n_series),
                        'cutoff': rng.choice([None, None, 0, 1, 2, length - 1, length, length + 3]),
                        'group': rng.choice(['main', 'main', 'main', 'step', 'initial']),
                        'mutate': rng.choice([None, None, 'append', 'pop', 'clear', 'sort', 'reverse', 'setitem',
                                              'extend', 'del0'])})
        elif r < 0.60:
            ops.append({'op': 'get_missing', 'name': rng.choice(['no_such_series', 'X__typo', 'x ', ' t', 'HH__F_']),
                        'cutoff': rng.choice([None, 1]), 'group': rng.choice(['main', 'main', 'step', 'initial'])})
        elif r < 0.65:
            ops.append({'op': 'set_default_cutoff', 'value': rng.choice([None, 0, 1, 3, length])})
        elif r < 0.75:
            ops.append({'op': 'set_suppress', 'value': rng.random() < 0.6})
        elif r < 0.80:
            # unrelated work elsewhere in the process: another holder object is built on another time axis (the name of
            # one of the stored series), filled and rendered
            ops.append({'op': 'other_holder', 'axis_series': rng.randrange(n_series), 'axis': rng.choice([None, None, 'year', 'x', 'z'])})
        elif r < 0.9:
            ops.append({'op': 'csv', 'fmt': rng.choice(['%.5g', '%r', '%.12e', None, None, '%.2f'])})
        else:
            ops.append({'op': 'holder_csv', 'group': rng.choice(['main', 'step', 'initial']),
                        'fmt': rng.choice(['%.5g', '%r', None, None, '%.3e'])})
    return ops


class C16(object):
    id = 'C16'
    anchors = ('Model.GetTimeSeries', 'BaseSolver.CreateCsvString', 'TimeSeriesHolder.GenerateCSVtext', 'EquationSolver.GenerateCSVtext')
    title = 'Reading results never changes them'
    rule = ('one case = one history of 2-30 reader calls (Model.GetTimeSeries with random cutoff / default cutoff / '
            'time-zero suppression / series group main|step|initial, EquationSolver.GenerateCSVtext, '
            'TimeSeriesHolder.GenerateCSVtext) interleaved with caller-side mutation of every returned list '
            '(append/pop/clear/sort/reverse/setitem/extend/del), on holders filled by a real traced solve or '
            'synthetically; after every call the three stored holders are compared with a deep snapshot and the '
            'return value with the reference slice; BaseSolver.CreateCsvString histories likewise; distinct = hash of '
            '(holder data, history); non-trivial = >= 2 reads of which one with suppression or mutation')
    assumptions = ['series are non-empty when time-zero suppression is on', 'cutoffs are non-negative']
    required_counters = ('get.judged', 'get.series_with_tiny_magnitudes', 'other_holder_built_between_reads', 'get.no_cutoff_series_longer_than_model_horizon', 'get.suppressed', 'get.mutated_return', 'csv.judged', 'csv.default_format', 'basesolver.judged', 'get_missing.judged',
                         'insitu.gettimeseries.post_evaluated',
                         'series_stored_by_the_user_between_renderings',
                         'series_renamed_by_the_user_between_renderings')

    def n_cases(self, tier):
        return (120 if tier == 'quick' else 12000) + 1

    def make_case(self, rng, idx, tier):
        case = self._make_case(rng, idx, tier)
        if idx % 8 == 5 and case.get('history') is not None:
            # between two renderings the USER stores a derived series of his own whose name sorts ahead of the others: the
            # renderings made before must not decide where it appears
            case['history'] += [{'op': 'csv', 'fmt': '%.5g'}, {'op': 'holder_csv', 'group': 'main', 'fmt': None},
                                {'op': 'store_derived', 'name': 'AAA_user'}, {'op': 'csv', 'fmt': '%.5g'},
                                {'op': 'store_derived', 'name': 'a_0_user'}, {'op': 'holder_csv', 'group': 'main', 'fmt': '%r'},
                                # ... and renames a stored series before an export (same number of series, other names)
                                {'op': 'rename_series', 'to': 'GDP_renamed'}, {'op': 'csv', 'fmt': '%.5g'},
                                {'op': 'rename_series', 'to': 'zz_last'}, {'op': 'holder_csv', 'group': 'main', 'fmt': None},
                                {'op': 'csv', 'fmt': '%r'}]
        return case

    def _make_case(self, rng, idx, tier):
        if idx == 0:
            return {'kind': 'ambient', 'models': ['SIM', 'PC'] if tier == 'quick' else ['SIM', 'SIMEX1', 'PC', 'REG'],
                    'scripts': 'fast' if tier == 'quick' else 'all'}
        if idx % 5 == 4:
            n = rng.randint(1, 5)
            names = rng.sample(['x', 'y', 't', 'z', 'a', 'tt', 'k'], n)
            ln = rng.randint(1, 6)
            return {'kind': 'basesolver', 'names': names,
                    'data': {nm: [rng.choice([1.0, 2.5, -3.0, 0.0, 7]) for _ in range(ln)] for nm in names},
                    'calls': rng.randint(2, 6)}
        if idx % 5 in (0, 1):
            spec = G.gen_affine(rng, rho=rng.choice([0.2, 0.5]), tol=1e-8, maxtime=rng.randint(2, 8))
            nser = len(G.all_value_names(spec)) + 1
            return {'kind': 'solved', 'text': G.render(spec), 'trace': rng.randint(1, spec['maxtime']),
                    'history': gen_history(rng, nser, spec['maxtime'] + 1),
                    'model_maxtime': [None, 1][idx % 2]}
        n = rng.randint(1, 6)
        ln = rng.randint(1, 8)
        names = rng.sample(['x', 'y', 't', 'k', 'HH__F', 'GOV__T', 'iteration', 'z', 'w'], n)
        holders = {}
        for g in ('main', 'step', 'initial'):
            holders[g] = {nm: [rng.choice([0.0, 1.0, 2.0, -1.5, 3.25, 10.0]) + i for i in range(ln + rng.randint(0, 2))]
                          for nm in names}
            if idx % 3 == 2:
                # magnitudes far from 1: the stored points come back as they are, however small or large
                for nm in names:
                    holders[g][nm] = [v * rng.choice([1e-13, -5e-100, 1e-300, 1e300, 2.5e-11, 1.0]) for v in holders[g][nm]]
        return {'kind': 'synthetic', 'holders': holders, 'history': gen_history(rng, n, ln),
                # the model's own horizon may be shorter than a stored group (steady-state search, step trace, a
                # horizon set on the solver): "no cutoff" still means every stored point
                'model_maxtime': [None, 1, 2, 0][idx % 4]}

    # ------------------------------------------------------------------------------------------
    def run_case(self, case):
        if case['kind'] == 'ambient':
            return self.run_ambient(case)
        if case['kind'] == 'basesolver':
            return self.run_basesolver(case)
        from sfc_models.models import Model
        from sfc_models.utils import TimeSeriesHolder
        rec = monitors.Recorder()
        mod = Model()
        if case['kind'] == 'solved':
            from sfc_models.equation_solver import EquationSolver
            solver = EquationSolver(run_equation_reduction=True)
            solver.TraceStep = case['trace']
            solver.MaxIterations = 3000
            try:
                with contextlib.redirect_stdout(io.StringIO()):
                    solver.ParseString(case['text'])
                    solver.SolveEquation()
            except ValueError as e:
                return {'verdict': 'notjudged', 'shape': 'solved|' + type(e).__name__}
            solver.TimeSeriesInitialSteadyState = copy.deepcopy(solver.TimeSeries)
            mod.EquationSolver = solver
        else:
            s = mod.EquationSolver
            for g, attr in (('main', 'TimeSeries'), ('step', 'TimeSeriesStepTrace'),
                            ('initial', 'TimeSeriesInitialSteadyState')):
                th = TimeSeriesHolder('k')
                for nm, vals in case['holders'][g].items():
                    th[nm] = list(vals)
                setattr(s, attr, th)
        solver = mod.EquationSolver
        if case.get('model_maxtime') is not None:
            mod.MaxTime = case['model_maxtime']
        reads = 0
        stressed = 0
        rendered = {}
        for op in case['history']:
            snap = monitors.snapshot_holders(solver)
            if op['op'] == 'set_default_cutoff':
                mod.TimeSeriesCutoff = op['value']
                continue
            if op['op'] == 'set_suppress':
                mod.TimeSeriesSupressTimeZero = op['value']
                continue
            if op['op'] == 'store_derived':
                # a write by the user, not a read: the memo of earlier renderings no longer applies
                ln_ = min([len(v) for v in solver.TimeSeries.values()] or [1])
                solver.TimeSeries[op['name']] = [0.5 * i_ + 1.0 for i_ in range(ln_)]
                rendered.clear()
                rec.count('series_stored_by_the_user_between_renderings')
                continue
            if op['op'] == 'rename_series':
                cands = [n_ for n_ in sorted(solver.TimeSeries.keys()) if n_ not in ('k', 't', 'iteration') and n_ != op['to']]
                if cands and op['to'] not in solver.TimeSeries:
                    solver.TimeSeries[op['to']] = solver.TimeSeries.pop(cands[len(cands) // 2])
                    rendered.clear()
                    rec.count('series_renamed_by_the_user_between_renderings')
                continue
            if op['op'] == 'other_holder':
                names = sorted(snap['main'].keys())
                axis = op['axis'] or (names[op['axis_series'] % len(names)] if names else 'year')
                oh = TimeSeriesHolder(axis)
                oh[axis] = [1.0, 2.0]
                oh['zz_other'] = [3.0, 4.0]
                oh.GenerateCSVtext()
                rec.count('other_holder_built_between_reads')
                continue
            if op['op'] == 'get_missing':
                if op['name'] in snap[op['group']]:
                    continue
                try:
                    mod.GetTimeSeries(op['name'], cutoff=op['cutoff'], group_of_series=op['group'])
                    outcome = 'returned'
                except KeyError:
                    outcome = 'KeyError'
                except Exception as e:
                    outcome = type(e).__name__
                rec.count('get_missing.judged')
                if outcome != 'KeyError':
                    rec.violate('missing_series_read_did_not_raise_KeyError', {'op': op, 'outcome': outcome})
                    break
                if not monitors.same_holders(snap, monitors.snapshot_holders(solver)):
                    after = monitors.snapshot_holders(solver)
                    rec.violate('read_changed_stored_results',
                                {'op': op, 'new_series': sorted(set(after[op['group']]) - set(snap[op['group']]))})
                    break
                continue
            if op['op'] == 'get':
                names = sorted(snap[op['group']].keys())
                if not names:
                    continue
                name = names[op['series'] % len(names)]
                stored = snap[op['group']][name]
                eff = op['cutoff'] if op['cutoff'] is not None else mod.TimeSeriesCutoff
                ref = list(stored) if eff is None else list(stored)[0:eff + 1]
                if mod.TimeSeriesSupressTimeZero:
                    if not ref:
                        continue
                    ref = ref[1:]
                    rec.count('get.suppressed')
                    stressed += 1
                try:
                    out = mod.GetTimeSeries(name, cutoff=op['cutoff'], group_of_series=op['group'])
                except Exception as e:
                    rec.violate('read_raised', {'op': op, 'series': name, 'err': repr(e)})
                    break
                rec.count('get.judged')
                if any(0.0 < abs(x) < 1e-9 for x in stored):
                    rec.count('get.series_with_tiny_magnitudes')
                if eff is None and len(stored) > mod.MaxTime + 1:
                    rec.count('get.no_cutoff_series_longer_than_model_horizon')
                reads += 1
                if repr(list(out)) != repr(ref):
                    rec.violate('read_wrong_slice', {'op': op, 'series': name, 'got': list(out)[:10],
                                                     'expected': ref[:10], 'suppress': mod.TimeSeriesSupressTimeZero,
                                                     'default_cutoff': mod.TimeSeriesCutoff})
                    break
                if not monitors.same_holders(snap, monitors.snapshot_holders(solver)):
                    rec.violate('read_changed_stored_results', {'op': op, 'series': name,
                                                                'suppress': mod.TimeSeriesSupressTimeZero})
                    break
                if op['mutate']:
                    self.mutate(out, op['mutate'])
                    rec.count('get.mutated_return')
                    stressed += 1
                    if not monitors.same_holders(snap, monitors.snapshot_holders(solver)):
                        rec.violate('caller_mutation_reached_stored_results',
                                    {'op': op, 'series': name, 'stored_before': list(stored)[:8],
                                     'stored_after': list(getattr(solver, {'main': 'TimeSeries', 'step': 'TimeSeriesStepTrace', 'initial': 'TimeSeriesInitialSteadyState'}[op['group']])[name])[:8]})
                        break
            elif op['op'] in ('csv', 'holder_csv'):
                fmt = op['fmt']
                if op['op'] == 'csv':
                    f = (lambda: solver.GenerateCSVtext()) if fmt is None else (lambda: solver.GenerateCSVtext(fmt))
                    hold, memo_key = snap['main'], ('solver', fmt)
                else:
                    attr = {'main': 'TimeSeries', 'step': 'TimeSeriesStepTrace',
                            'initial': 'TimeSeriesInitialSteadyState'}[op['group']]
                    f = ((lambda: getattr(solver, attr).GenerateCSVtext()) if fmt is None else
                         (lambda: getattr(solver, attr).GenerateCSVtext(fmt)))
                    hold, memo_key = snap[op['group']], (op['group'], fmt)
                try:
                    t1 = f()
                    t2 = f()
                except Exception as e:
                    rec.violate('render_raised', {'op': op, 'err': repr(e)})
                    break
                rec.count('csv.judged')
                if fmt is None:
                    rec.count('csv.default_format')
                if t1 != t2:
                    rec.violate('render_not_repeatable', {'op': op, 'first': t1[:200], 'second': t2[:200]})
                    break
                # the same stored series and the same arguments give the same text across the whole history
                if memo_key in rendered and rendered[memo_key] != t1:
                    rec.violate('render_not_repeatable', {'op': op, 'earlier_in_history': rendered[memo_key][:200],
                                                          'now': t1[:200]})
                    break
                rendered[memo_key] = t1
                if not monitors.same_holders(snap, monitors.snapshot_holders(solver)):
                    rec.violate('render_changed_stored_results', {'op': op})
                    break
                if fmt is not None:
                    h, rows = monitors.reference_table(hold, fmt)
                    if monitors.parse_table(t1) != (h, rows):
                        rec.violate('render_not_faithful', {'op': op, 'text': t1[:300]})
                        break
        nontrivial = reads >= 2 and stressed >= 1
        return {'verdict': 'violated' if rec.violations else 'held', 'nontrivial': nontrivial,
                'shape': case['kind'], 'counters': rec.counters, 'violations': rec.violations,
                'obs': {'ops': len(case['history']), 'reads': reads, 'stressed': stressed}}

    @staticmethod
    def mutate(lst, how):
        try:
            if how == 'append':
                lst.append(12345.0)
            elif how == 'pop':
                lst.pop()
            elif how == 'clear':
                del lst[:]
            elif how == 'sort':
                lst.sort(reverse=True)
            elif how == 'reverse':
                lst.reverse()
            elif how == 'setitem':
                lst[0] = -999.0
            elif how == 'extend':
                lst.extend([1.0, 2.0])
            elif how == 'del0':
                del lst[0]
        except (IndexError, TypeError, AttributeError):
            pass

    def run_basesolver(self, case):
        from sfc_models.base_solver import BaseSolver
        rec = monitors.Recorder()
        varlist = list(case['names'])
        obj = BaseSolver(varlist)
        for nm, vals in case['data'].items():
            setattr(obj, nm, list(vals))
        saved_list = list(varlist)
        saved_data = copy.deepcopy(case['data'])
        texts = []
        for i in range(case['calls']):
            try:
                texts.append(obj.CreateCsvString())
            except Exception as e:
                rec.violate('render_raised', {'call': i, 'names': case['names'], 'err': repr(e)})
                break
            rec.count('basesolver.judged')
            if list(obj.VariableList) != saved_list:
                rec.violate('render_changed_variable_list', {'call': i, 'before': saved_list,
                                                             'after': list(obj.VariableList)})
                break
            if {nm: getattr(obj, nm) for nm in saved_data} != saved_data:
                rec.violate('render_changed_stored_results', {'call': i})
                break
            if texts[-1] != texts[0]:
                rec.violate('render_not_repeatable', {'call': i, 'first': texts[0][:200], 'now': texts[-1][:200]})
                break
        # header: time axis first when present, every variable once
        if texts and not rec.violations:
            head = texts[0].split('\n')[0].split('\t')
            if sorted(head) != sorted(saved_list) or ('t' in saved_list and head[0] != 't'):
                rec.violate('basesolver_header', {'header': head, 'names': saved_list})
        return {'verdict': 'violated' if rec.violations else 'held',
                'nontrivial': case['calls'] >= 2 and 't' in case['names'], 'shape': 'basesolver',
                'counters': rec.counters, 'violations': rec.violations,
                'obs': {'names': case['names'], 'first': texts[0][:120] if texts else None}}

    def run_ambient(self, case):
        from vf import ambient
        rec = monitors.Recorder()
        ins = monitors.Recorder()
        undo = monitors.install_reader_monitors(ins)
        built = []
        try:
            for name in case['models']:
                try:
                    mod = ambient.build_book(name, max_time=5)
                except Exception:
                    rec.count('ambient.build_failed')
                    continue
                built.append(name)
                names = sorted(mod.EquationSolver.TimeSeries.keys())
                for supp in (False, True, True, False):
                    mod.TimeSeriesSupressTimeZero = supp
                    for nm in names[:25]:
                        for cutoff in (None, 2):
                            out = mod.GetTimeSeries(nm, cutoff=cutoff)
                            out.append(1.0)
                mod.EquationSolver.GenerateCSVtext()
            which = case.get('scripts')
            if which:
                built += ['script:' + n for n in ambient.run_scripts(
                    ambient.FAST_SCRIPTS if which == 'fast' else ambient.ALL_SCRIPTS, rec)]
        finally:
            monitors.unpatch(undo)
        for k, v in ins.counters.items():
            rec.count('insitu.' + k, v)
        rec.violations.extend(ins.violations)
        return {'verdict': 'violated' if rec.violations else 'held',
                'nontrivial': ins.counters.get('gettimeseries.post_evaluated', 0) > 0,
                'evals': len(built), 'keys': ['ambient:' + m for m in built], 'shape': 'ambient',
                'counters': rec.counters, 'violations': rec.violations, 'obs': {'built': built, 'insitu': ins.counters}}


PROP = C16()
