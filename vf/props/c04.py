"""C04 - markets clear and supply is fully allocated among suppliers."""
from vf.props import c01


class C04(c01.C01):
    id = 'C04'
    anchors = ('Market._SearchSupplier', 'Market._GenerateTermsLowLevel', 'Market._GenerateMultiSupply', 'MoneyMarket._GenerateEquations', 'DepositMarket._GenerateEquations', 'Sector.GenerateAssetWeighting')
    title = 'Markets clear and supply is fully allocated among suppliers'
    rule = ('same model workload as C01 (random topologies built and solved by the real code, emitted text re-solved '
            'exactly); for every goods, labour, money and deposit market of every model and every k>=1: market demand == '
            'sum of the demands of the sectors the SPEC declares as demanders in the zone (households, capitalists, the '
            'government of the country or of the federation), supply == demand, supplier amounts add up to supply, each '
            "participant's own variable == the amount the market assigns (x cross rate for a supplier in another "
            'currency), tax received == tax paid, interest and dividends paid == received, default money demand == F, '
            'portfolio demands add up to F; the cash flow booked for each participant is checked through the sector '
            'ledgers (dF == declared flows); distinct = hash of spec; non-trivial = largest judged flow > 1e-3')
    assumptions = ['markets with user-supplied ResidualSupply conventions outside the spec language are not explored']
    required_counters = ('models.judged', 'market_demand_not_sum_of_declared_demands.judged',
                         'supplier_amounts_do_not_add_up_to_supply.judged',
                         'participant_variable_not_market_assigned_amount.judged',
                         'sector_ledger_not_sum_of_declared_flows.judged', 'asset_demands_do_not_add_up_to_wealth.judged',
                         'models.judged.with_portfolio_rule_object_shared_by_households',
                         'models.judged.with_prefix_related_market_codes_and_household_in_both',
                         'models.judged.with_three_asset_portfolio',
                         'models.judged.with_households_buying_in_another_regions_market')
    which = ('markets', 'ledger')

    def make_case(self, rng, idx, tier):
        case = c01.gen_case(rng, idx, tier)
        return case

    def run_case(self, case):
        return c01.solve_and_judge(case, self.which, in_situ=False)


PROP = C04()
