"""C04 - markets clear and supply is fully allocated among suppliers."""
from vf.props import c01


class C04(c01.C01):
    id = 'C04'
    anchors = ('Market._SearchSupplier', 'Market._GenerateTermsLowLevel', 'Market._GenerateMultiSupply', 'MoneyMarket._GenerateEquations', 'DepositMarket._GenerateEquations', 'Sector.GenerateAssetWeighting')
    title = 'Markets clear and supply is fully allocated among suppliers'
    rule = ('same model workload as C01 (random topologies built and solved by the real code, emitted text re-solved '
            'exactly); for every goods, labour, money and deposit market of every model and every k>=1: market demand == '
            'sum of the demands of the sectors the SPEC declares as demanders in the zone (households, capitalists, the '
            'government of the country or of the federation), supply == demand, supplier amounts add up to supply, each '
            "participant's own variable == the amount the market assigns (x cross rate for a supplier in another "
            'currency), tax received == tax paid, interest and dividends paid == received, default money demand == F, '
            'portfolio demands add up to F; the cash flow booked for each participant is checked through the sector '
            'ledgers (dF == declared flows); distinct = hash of spec; non-trivial = largest judged flow > 1e-3')
    assumptions = ['markets with user-supplied ResidualSupply conventions outside the spec language are not explored']
    required_counters = ('models.judged', 'market_demand_not_sum_of_declared_demands.judged',
                         'supplier_amounts_do_not_add_up_to_supply.judged',
                         'participant_variable_not_market_assigned_amount.judged',
                         'sector_ledger_not_sum_of_declared_flows.judged', 'asset_demands_do_not_add_up_to_wealth.judged',
                         'models.judged.with_portfolio_rule_object_shared_by_households',
                         'models.judged.with_prefix_related_market_codes_and_household_in_both',
                         'models.judged.with_three_asset_portfolio',
                         'models.judged.with_households_buying_in_another_regions_market',
                         'retry_after_market_refusal.judged',
                         'models.judged.with_getter_results_emptied_by_the_caller',
                         'portfolio_only_model.second_run_on_same_objects.judged',
                         'buyer_declared_through_the_string_api.judged',
                         'models.judged.with_numeric_portfolio_weights_overridden_by_a_path')
    which = ('markets', 'ledger')

    def make_case(self, rng, idx, tier):
        if idx % 16 == 11:
            # the goods market (declared first) has no supplier yet: main() refuses the model; the caller adds the missing
            # business - or names one of two candidates as the supplier - and builds again on the same objects
            return {'kind': 'retry_after_market_refusal', 'why': rng.choice(['no_supplier', 'two_candidates']),
                    'G': [float(rng.randint(10, 30)) for _ in range(6)], 'a1': round(rng.uniform(0.5, 0.8), 2),
                    'a2': round(rng.uniform(0.1, 0.4), 2), 'tax': round(rng.uniform(0.1, 0.3), 2), 'attempts': rng.choice([1, 2])}
        if idx % 16 == 15:
            # an extra buyer whose demand is declared through the STRING form of the API, the text aligned with tabs (or other
            # white space) as when it is pasted from a file
            return {'kind': 'string_declared_buyer', 'G': [float(rng.randint(10, 30)) for _ in range(6)], 'a1': round(rng.uniform(0.5, 0.8), 2),
                    'a2': round(rng.uniform(0.1, 0.4), 2), 'tax': round(rng.uniform(0.1, 0.3), 2), 'amount': rng.choice([2.5, 4.0, 1.25]),
                    'form': ['tabs', 'lead_tab', 'blanks', 'equation_object', 'nbsp'][(idx // 16) % 5]}
        if idx % 16 == 7:
            # a portfolio-only model (plain sectors holding money, no goods or labour market: nothing books flows during
            # generation) is solved, a behavioural parameter is changed and main() is called again on the same objects
            n = rng.choice([2, 3, 4])
            return {'kind': 'second_run_portfolio_only', 'n': n, 'F0': [float(rng.randint(20, 200)) for _ in range(n)],
                    'transfer': [round(rng.uniform(-5, 9), 1) for _ in range(n)],
                    'own_rule': [rng.random() < 0.5 for _ in range(n)], 'share1': round(rng.uniform(0.2, 0.8), 2),
                    'share2': round(rng.uniform(0.2, 0.8), 2), 'runs': rng.choice([2, 3])}
        if idx % 16 == 3:
            case = c01.gen_case(rng, idx, tier)
            case.setdefault('build_opts', {})['mutate_returned_lists'] = True
            return case
        case = c01.gen_case(rng, idx, tier)
        return case

    def run_retry(self, case):
        import contextlib, io
        from sfc_models.models import Model, Country
        from sfc_models.sector import Market, Sector
        from sfc_models.sector_definitions import Household, ConsolidatedGovernment, FixedMarginBusiness, TaxFlow
        from vf import monitors
        rec = monitors.Recorder()
        T = 4
        mod = Model()
        ca = Country(mod, 'CA', 'CA')
        good = Market(ca, 'GOOD', 'goods')          # first in the list: it is refused before anything else is generated
        second = None
        if case['why'] == 'two_candidates':
            bus = FixedMarginBusiness(ca, 'BUS', 'business')
            second = Sector(ca, 'BUS2', 'a second candidate', has_F=True)
            second.AddVariable('SUP_GOOD', 'supply of goods', '')
        lab = Market(ca, 'LAB', 'labour')
        gov = ConsolidatedGovernment(ca, 'GOV', 'government')
        hh = Household(ca, 'HH', 'household', alpha_income=case['a1'], alpha_fin=case['a2'])
        TaxFlow(ca, 'TF', 'tax flow', case['tax'])
        gov.SetExogenous('DEM_GOOD', list(case['G']))
        mod.MaxTime = T
        refused = 0
        with contextlib.redirect_stdout(io.StringIO()):
            for _ in range(case['attempts']):
                try:
                    mod.main()
                    rec.violate('market_without_unique_supplier_not_refused', {'why': case['why']})
                    return {'verdict': 'violated', 'shape': 'retry|' + case['why'], 'counters': rec.counters, 'violations': rec.violations}
                except Exception:
                    refused += 1
            if case['why'] == 'no_supplier':
                bus = FixedMarginBusiness(ca, 'BUS', 'business')
            else:
                good.AddSupplier(second, '0.25*DEM_GOOD')      # the second candidate gets a quarter; BUS is the residual supplier
                good.AddSupplier(bus)
            try:
                mod.main()
            except Exception as e:
                return {'verdict': 'notjudged', 'shape': 'retry|' + case['why'] + '|' + type(e).__name__, 'counters': rec.counters,
                        'obs': {'err': repr(e)[:300]}}
        V = mod.EquationSolver.TimeSeries
        rec.count('retry_after_market_refusal.judged')
        tol = 1e-4
        for k in range(1, T + 1):
            d = lambda n: V[n][k] - V[n][k - 1]
            dem = V['HH__DEM_GOOD'][k] + V['GOV__DEM_GOOD'][k]
            sup_bus = V['BUS__SUP_GOOD'][k]
            sup_2 = V['BUS2__SUP_GOOD'][k] if second is not None else 0.0
            checks = [('market_demand_not_sum_of_declared_demands', V['GOOD__DEM_GOOD'][k], dem),
                      ('market_supply_not_equal_demand', V['GOOD__SUP_GOOD'][k], V['GOOD__DEM_GOOD'][k]),
                      ('supplier_amounts_do_not_add_up_to_supply', sup_bus + sup_2, V['GOOD__SUP_GOOD'][k]),
                      ('sector_ledger_not_sum_of_declared_flows', d('HH__F'), V['HH__SUP_LAB'][k] - V['HH__DEM_GOOD'][k] - V['HH__T'][k]),
                      ('sector_ledger_not_sum_of_declared_flows', d('GOV__F'), V['GOV__T'][k] - V['GOV__DEM_GOOD'][k]),
                      ('sector_ledger_not_sum_of_declared_flows', d('BUS__F'), sup_bus - V['BUS__DEM_LAB'][k])]
            if second is not None:
                checks.append(('sector_ledger_not_sum_of_declared_flows', d('BUS2__F'), sup_2))
                checks.append(('participant_variable_not_market_assigned_amount', sup_2, 0.25 * V['GOOD__DEM_GOOD'][k]))
            for kind, got, exp in checks:
                if abs(got - exp) > tol * max(1.0, abs(exp)):
                    rec.violate(kind, {'k': k, 'got': got, 'expected': exp, 'after': 'main() refused (%s, %d time(s)), the caller completed the model and built again' % (case['why'], refused)})
                    break
            if rec.violations:
                break
        return {'verdict': 'violated' if rec.violations else 'held', 'nontrivial': True, 'shape': 'retry|' + case['why'],
                'counters': rec.counters, 'violations': rec.violations, 'obs': {'refusals': refused}}

    def run_string_buyer(self, case):
        import contextlib, io
        from sfc_models.models import Model, Country
        from sfc_models.sector import Market, Sector
        from sfc_models.equation import Equation
        from sfc_models.sector_definitions import Household, ConsolidatedGovernment, FixedMarginBusiness, TaxFlow
        from vf import monitors
        rec = monitors.Recorder()
        T = 4
        mod = Model()
        ca = Country(mod, 'CA', 'CA')
        gov = ConsolidatedGovernment(ca, 'GOV', 'government')
        hh = Household(ca, 'HH', 'household', alpha_income=case['a1'], alpha_fin=case['a2'])
        FixedMarginBusiness(ca, 'BUS', 'business')
        TaxFlow(ca, 'TF', 'tax flow', case['tax'])
        x = Sector(ca, 'XB', 'an extra buyer', has_F=True)
        amt = repr(case['amount'])
        text = {'tabs': 'DEM_GOOD\t=\t%s\t# purchases, tab aligned' % amt, 'lead_tab': '\tDEM_GOOD = %s' % amt,
                'blanks': '  DEM_GOOD   =   %s   # purchases' % amt, 'equation_object': 'DEM_GOOD\t= %s' % amt,
                'nbsp': 'DEM_GOOD\u00a0= %s' % amt}[case['form']]
        if case['form'] == 'equation_object':
            x.AddVariableFromEquation(Equation(text))
        else:
            x.AddVariableFromEquation(text)
        Market(ca, 'LAB', 'labour')
        Market(ca, 'GOOD', 'goods')
        gov.SetExogenous('DEM_GOOD', list(case['G']))
        mod.MaxTime = T
        try:
            with contextlib.redirect_stdout(io.StringIO()):
                mod.main()
        except Exception as e:
            return {'verdict': 'notjudged', 'shape': 'string_buyer|' + case['form'] + '|' + type(e).__name__, 'counters': rec.counters,
                    'obs': {'err': repr(e)[:300]}}
        V = mod.EquationSolver.TimeSeries
        rec.count('buyer_declared_through_the_string_api.judged')
        tol = 1e-4
        for k in range(1, T + 1):
            d = lambda n: V[n][k] - V[n][k - 1]
            checks = [('participant_variable_not_market_assigned_amount', V.get('XB__DEM_GOOD', [None] * (T + 1))[k], case['amount']),
                      ('market_demand_not_sum_of_declared_demands', V['GOOD__DEM_GOOD'][k], V['HH__DEM_GOOD'][k] + V['GOV__DEM_GOOD'][k] + case['amount']),
                      ('supplier_amounts_do_not_add_up_to_supply', V['BUS__SUP_GOOD'][k], V['GOOD__DEM_GOOD'][k]),
                      ('sector_ledger_not_sum_of_declared_flows', d('XB__F'), -case['amount']),
                      ('sector_ledger_not_sum_of_declared_flows', d('BUS__F'), V['BUS__SUP_GOOD'][k] - V['BUS__DEM_LAB'][k])]
            for kind, got, exp in checks:
                if got is None or abs(got - exp) > tol * max(1.0, abs(exp)):
                    rec.violate(kind, {'k': k, 'got': got, 'expected': exp, 'declared_as': text})
                    break
            if rec.violations:
                break
        return {'verdict': 'violated' if rec.violations else 'held', 'nontrivial': True, 'shape': 'string_buyer|' + case['form'],
                'counters': rec.counters, 'violations': rec.violations}

    def run_second_run(self, case):
        import contextlib, io
        from sfc_models.models import Model, Country
        from sfc_models.sector import Sector
        from sfc_models.sector_definitions import ConsolidatedGovernment, MoneyMarket
        from vf import monitors
        rec = monitors.Recorder()
        T = 4
        mod = Model()
        ca = Country(mod, 'CA', 'CA')
        ConsolidatedGovernment(ca, 'GOV', 'government')
        names = ['S%d' % i for i in range(case['n'])]
        secs = []
        for i, nm in enumerate(names):
            sec = Sector(ca, nm, nm, has_F=True)
            sec.AddCashFlow('+TR', repr(case['transfer'][i]), 'transfer')      # booked here, once, when the model is built
            if case['own_rule'][i]:
                sec.AddVariable('SHARE', 'share held as money', repr(case['share1']))
                sec.AddVariable('DEM_MON', 'money demand', 'SHARE*F')
            mod.AddInitialCondition(nm, 'F', case['F0'][i])
            secs.append(sec)
        MoneyMarket(ca)
        mod.MaxTime = T
        tol = 1e-6
        for run in range(case['runs']):
            share = case['share1'] if run % 2 == 0 else case['share2']
            for i, sec in enumerate(secs):
                if case['own_rule'][i]:
                    sec.SetEquationRightHandSide('SHARE', repr(share))
            try:
                with contextlib.redirect_stdout(io.StringIO()):
                    mod.main()
            except Exception as e:
                if run == 0:
                    return {'verdict': 'notjudged', 'shape': 'second_run|' + type(e).__name__, 'counters': rec.counters,
                            'obs': {'err': repr(e)[:300]}}
                rec.violate('second_build_of_portfolio_only_model_failed', {'run': run + 1, 'error': repr(e)[:300]})
                break
            V = mod.EquationSolver.TimeSeries
            rec.count('portfolio_only_model.runs_judged')
            if run > 0:
                rec.count('portfolio_only_model.second_run_on_same_objects.judged')
            for k in range(1, T + 1):
                holders = sum(V[nm + '__DEM_MON'][k] for nm in names)
                checks = [('market_demand_not_sum_of_declared_demands', V['MON__DEM_MON'][k], holders),
                          ('market_supply_not_equal_demand', V['MON__SUP_MON'][k], V['MON__DEM_MON'][k]),
                          ('supplier_amounts_do_not_add_up_to_supply', V['GOV__SUP_MON'][k], V['MON__SUP_MON'][k])]
                for i, nm in enumerate(names):
                    exp = (share if case['own_rule'][i] else 1.0) * V[nm + '__F'][k]
                    checks.append(('participant_variable_not_market_assigned_amount', V[nm + '__DEM_MON'][k], exp))
                    checks.append(('sector_ledger_not_sum_of_declared_flows', V[nm + '__F'][k] - V[nm + '__F'][k - 1], case['transfer'][i]))
                for kind, got, exp in checks:
                    if abs(got - exp) > tol * max(1.0, abs(exp)):
                        rec.violate(kind, {'k': k, 'got': got, 'expected': exp, 'run_on_the_same_objects': run + 1})
                        break
                if rec.violations:
                    break
            if rec.violations:
                break
        return {'verdict': 'violated' if rec.violations else 'held', 'nontrivial': True, 'shape': 'second_run|n%d' % case['n'],
                'counters': rec.counters, 'violations': rec.violations}

    def run_case(self, case):
        if case.get('kind') == 'retry_after_market_refusal':
            return self.run_retry(case)
        if case.get('kind') == 'second_run_portfolio_only':
            return self.run_second_run(case)
        if case.get('kind') == 'string_declared_buyer':
            return self.run_string_buyer(case)
        res = c01.solve_and_judge(case, self.which, in_situ=False)
        if case.get('build_opts', {}).get('mutate_returned_lists') and res['verdict'] == 'notjudged':
            # the build failed although the only unusual thing the caller did was to empty lists it had been handed:
            # does the same model build when the caller leaves them alone?
            from vf.gen import modelspec as M
            opts = dict(case['build_opts'], mutate_returned_lists=False)
            plain = M.build(case['spec'], ext_first=case.get('ext_first', True) or bool(case['spec'].get('row')), **opts)
            if plain.error is None:
                res = {'verdict': 'violated', 'nontrivial': True, 'shape': res.get('shape', '-'), 'counters': res.get('counters', {}),
                       'violations': [{'kind': 'emptying_a_returned_list_changed_the_model',
                                       'detail': {'failure_with_emptied_lists': res.get('obs', {}).get('error'),
                                                  'note': 'the same specification builds and solves when the caller leaves the returned lists alone'}}]}
        return res


PROP = C04()
