"""C17 - results depend only on the model, not on process history or diagnostics."""
import contextlib
import io
import json
import os
import shutil
import subprocess
import sys
import tempfile

from vf import monitors
from vf.gen import eqsys as G

BOOKS = ['SIM', 'SIMEX1', 'PC', 'REG']


def series_repr(ts):
    return {n: [repr(v) for v in vals] for n, vals in ts.items()}


def compute_target(target, settings=None, tmpdir=None):
    """Build and solve the target with the real code; returns {name: [repr(value)]}."""
    from sfc_models.utils import Logger
    settings = settings or {}
    with contextlib.redirect_stdout(io.StringIO()):
        if target['type'] == 'book':
            from vf import ambient
            cls = ambient.book_builders()[target['name']]
            b = cls(country_code=target.get('code', 'C1'))
            mod = b.build_model()
            mod.MaxTime = target['maxtime']
            for hook in settings.get('between_build_and_main', []):
                hook()
            if settings.get('trace') is not None:
                mod.EquationSolver.TraceStep = settings['trace']
            base = None
            if settings.get('logging') and tmpdir:
                base = os.path.join(tmpdir, 'log_%s' % target['name'])
                if settings.get('preregister'):
                    Logger.register_standard_logs(base)
                    base = None
            mod.main(base)
            out = series_repr(mod.EquationSolver.TimeSeries)
            for _ in range(settings.get('resolves', 0)):
                mod.EquationSolver.SolveEquation()
                again = series_repr(mod.EquationSolver.TimeSeries)
                if again != out:
                    return {'__resolve_differs__': [k for k in out if out[k] != again.get(k)][:5]}
            return out
        if target['type'] == 'staged_sim':
            # a SIM economy put together in two stages; whatever the process does in between is none of its business
            from sfc_models.models import Model, Country
            from sfc_models.sector import Market
            from sfc_models.sector_definitions import Household, ConsolidatedGovernment, FixedMarginBusiness, TaxFlow
            def pause():
                for hook in settings.get('mid_construction', []):
                    hook()
            mod = Model()
            ca = Country(mod, 'CA', 'Canada')
            pause()
            gov = ConsolidatedGovernment(ca, 'GOV', 'Government')
            pause()
            Household(ca, 'HH', 'Household', alpha_income=target['a1'], alpha_fin=target['a2'])
            pause()
            FixedMarginBusiness(ca, 'BUS', 'Business')
            pause()
            TaxFlow(ca, 'TF', 'Tax flow', target['tax'])
            pause()
            Market(ca, 'LAB', 'Labour')
            pause()
            Market(ca, 'GOOD', 'Goods')
            gov.SetExogenous('DEM_GOOD', repr(target['g']))
            mod.MaxTime = target['maxtime']
            mod.main()
            return series_repr(mod.EquationSolver.TimeSeries)
        from sfc_models.equation_solver import EquationSolver
        s = EquationSolver(run_equation_reduction=target['reduction'])
        s.MaxIterations = 4000
        if target.get('funcs'):
            s.AddFunction('half', lambda v: 0.5 * v)
            s.AddFunction('damp', lambda a, b: 0.25 * a + 0.125 * b)
        if settings.get('trace') is not None:
            s.TraceStep = settings['trace']
        if target.get('steady'):
            # the optional initial steady-state search is part of what the target asks for
            s.ParameterSolveInitialSteadyState = True
            s.ParameterInitialSteadyStateMaxTime = 60
        if settings.get('logging') and tmpdir:
            Logger.register_standard_logs(os.path.join(tmpdir, 'blk'))
        try:
            for hook in settings.get('between_config_and_solve', []):
                hook()
            try:
                s.ParseString(target['text'])
                s.SolveEquation()
            except (NameError, ValueError) as e:
                return {'__error__': [type(e).__name__]}
            out = series_repr(s.TimeSeries)
            for _ in range(settings.get('resolves', 0)):
                s.SolveEquation()
                again = series_repr(s.TimeSeries)
                if again != out:
                    return {'__resolve_differs__': [k for k in out if out[k] != again.get(k)][:5]}
        finally:
            Logger.cleanup()
        return out


def fresh(target):
    """Compute the target first thing in a fresh interpreter."""
    from vf import repo
    verif = os.path.dirname(os.path.dirname(os.path.dirname(os.path.abspath(__file__))))
    env = dict(os.environ, PYTHONPATH=verif, PYTHONHASHSEED='0', VERIF_REPO=repo.REPO)
    p = subprocess.run([sys.executable, '-m', 'vf.props.c17', json.dumps(target)], env=env, capture_output=True,
                       text=True, timeout=300, cwd=tempfile.gettempdir())
    if p.returncode != 0:
        return None, p.stderr[-500:]
    return json.loads(p.stdout.strip().split('\n')[-1]), None


class C17(object):
    id = 'C17'
    anchors = ('EquationSolver.ParseString', 'EquationSolver.SetInitialConditions', 'EquationSolver.SolveStep', 'Logger.register_standard_logs', 'Logger.cleanup', 'EquationSolver.AddFunction')
    title = 'Results depend only on the model, not on process history or diagnostics'
    max_shards = 16
    rule = ('one case = one target (book model SIM/SIMEX1/PC/REG with a drawn horizon, or a random equation block) '
            'computed (i) first thing in a fresh subprocess and (ii) in a process after a drawn history: other models '
            'built and solved, built and left unfinished, built and failed, objects of another model created between the '
            "target's construction and its main(), other solvers solved with user functions, log files registered to a "
            'temporary directory (through main(base) or beforehand), a step being traced, the solver re-solved 1-3 times; '
            'all series must be bitwise equal (repr); plus re-parse cases: a solver that solved block A is given block B '
            'and must report exactly the variables of B with the values of a fresh solver; distinct = hash of case; '
            'non-trivial = history has >= 2 operations or logging/tracing/re-solve is on')
    assumptions = ['Model.main() called twice on one model is outside the statement',
                   'fresh interpreter started with the same PYTHONHASHSEED']
    required_counters = ('fresh_vs_history.compared', 'series.compared', 'reparse.judged', 'logging.on', 'trace.on',
                         'resolve.on', 'steady_state_option.on', 'history.exclusion_list_of_another_solver_edited_in_place',
                         'reparse.second_block_without_run_parameter_lines',
                         'reparse.second_block_is_scenario_with_same_names_and_horizon',
                         'reparse.warning_raised_as_error',
                         'reparse.fallback_after_failed_search',
                         'reparse.second_block_is_empty',
                         'history.same_text_and_options_solved_with_other_callables_under_the_same_names',
                         'history.small_models_created_and_solved_between_two_construction_stages',
                         'history.other_solver_registered_functions_named_like_math_functions')

    def n_cases(self, tier):
        return 32 if tier == 'quick' else 1200

    def make_case(self, rng, idx, tier):
        if idx % 4 == 3:
            # the two blocks ask for different accuracies (explicit coarse / fine, or the parser default)
            a = G.gen_affine(rng, rho=0.5, tol=rng.choice([1e-9, 1e-3, 1e-2, 1e-5]), maxtime=rng.randint(1, 6))
            b = G.gen_affine(rng, rho=0.5, tol=rng.choice([1e-9, 1e-9, 1e-12, 1e-6]), maxtime=rng.randint(1, 6))
            b_text = G.render(b)
            omits = False
            same_names = False
            if idx % 8 == 3:
                # the second block is a scenario of the first: same names, same horizon, other exogenous values and constants
                import copy as _copy
                b = _copy.deepcopy(a)
                for e in b['exos']:
                    e['values'] = [v + 1.5 for v in e['values']]
                    e['form'] = 'list'
                    e['text'] = repr(e['values'])
                for cst in b['consts']:
                    cst['value'] = cst['value'] + 0.25
                b_text = G.render(b)
                same_names = True
            if idx % 8 == 7:
                # the second block leaves horizon and tolerance to the defaults (no MaxTime / Err_Tolerance line)
                b = G.gen_affine(rng, rho=0.5, tol=1e-9, maxtime=2, n_exo=0)
                b_text = '\n'.join(l for l in G.render(b).split('\n')
                                   if not l.replace(' ', '').startswith(('MaxTime=', 'Err_Tolerance=')))
                omits = True
            mode = None
            if idx % 16 in (11, 15):
                # an unrelated second block (own names, own horizon)
                b = G.gen_affine(rng, rho=0.5, tol=1e-9, maxtime=rng.randint(1, 6))
                b_text = G.render(b)
                omits = same_names = False
            if idx % 16 == 11:
                # warnings are errors in this process: the parse report about an ignored line is RAISED; the caller catches
                # it and solves anyway
                x0 = b['simul'][0]['name']
                b_text = 'zz_bad = %s(k-1) + 1\n' % x0 + b_text
                mode = 'warning_raised_as_error'
            elif idx % 16 == 15:
                # the steady-state search fails (a drifting variable); the caller switches the option off and solves again
                b_text = 'zz_drift = zz_drift_l + 1.0\nzz_drift_l = zz_drift(k-1)\n' + b_text
                mode = 'fallback_after_failed_search'
            if idx % 32 == 19:
                # the second block is EMPTY (or a lone comment): only the time axis is left to report
                return {'kind': 'reparse', 'A': G.render(a), 'B': ['', '# nothing left\n', '\n\n'][(idx // 32) % 3], 'B_omits_run_parameters': False,
                        'B_is_scenario_of_A': False, 'mode': None, 'B_is_empty': True, 'B_names': ['k', 't'],
                        'reduction': rng.random() < 0.5, 'solve_A': True}
            return {'kind': 'reparse', 'A': G.render(a), 'B': b_text, 'B_omits_run_parameters': omits, 'B_is_scenario_of_A': same_names,
                    'mode': mode,
                    'B_names': sorted(set(G.all_value_names(b) + [d['name'] for d in b['decos']] + ['k', 't'])),
                    'reduction': rng.random() < 0.5, 'solve_A': rng.random() < 0.8}
        if idx % 8 not in (1, 5) and rng.random() < 0.5:
            target = {'type': 'book', 'name': rng.choice(BOOKS), 'maxtime': rng.randint(2, 8)}
        else:
            spec = G.gen_affine(rng, rho=rng.choice([0.3, 0.6]), tol=1e-9, maxtime=rng.randint(1, 8))
            target = {'type': 'block', 'text': G.render(spec), 'reduction': rng.random() < 0.5,
                      'steady': (idx % 8 == 1) or rng.random() < 0.3}
            if rng.random() < 0.5:
                # a block that uses user-defined functions (registered with AddFunction)
                x = spec['simul'][0]['name']
                nm = G.fresh_names(rng, 2, avoid=G.all_value_names(spec) + [d['name'] for d in spec['decos']])
                target['text'] = ('%s = half(%s) + 1.0\n%s = damp(%s, %s)\n' % (nm[0], nm[0], nm[1], nm[0], x)) + target['text']
                target['funcs'] = True
            elif rng.random() < 0.25:
                # uses a function nobody registered on THIS solver: must fail the same way in any process history
                x = spec['simul'][0]['name']
                nm = G.fresh_names(rng, 1, avoid=G.all_value_names(spec) + [d['name'] for d in spec['decos']])
                target['text'] = ('%s = half(%s) + 1.0\n' % (nm[0], x)) + target['text']
        hist = []
        for _ in range(rng.randint(0, 6)):
            op = rng.choice(['build_solve', 'build_only', 'failed_build', 'other_solver', 'failed_solver',
                             'interleave', 'same_target_before', 'rival_functions', 'rival_functions'])
            hist.append({'op': op, 'name': rng.choice(BOOKS + ['REG2']), 'maxtime': rng.randint(1, 4)})
        settings = {'logging': rng.random() < 0.5, 'preregister': rng.random() < 0.5,
                    'trace': rng.choice([None, None, 1, 2]), 'resolves': rng.choice([0, 0, 1, 2, 3])}
        if target.get('steady') and idx % 8 == 1:
            # another solver's list of variables excluded from the steady-state test is edited in place (names of the
            # target's own variables), and the target itself is re-solved
            hist.insert(rng.randint(0, len(hist)), {'op': 'other_solver_excludes', 'name': 'SIM', 'maxtime': 1})
            settings['resolves'] = max(1, settings['resolves'])
        if idx % 8 == 2:
            # the target relies on names resolving the way a fresh process resolves them: log / sqrt / exp are the math functions, and
            # `half` is defined nowhere (the block must fail the same way) - earlier in the process other solvers registered
            # functions under exactly these names and were solved
            uses_unregistered = (idx // 8) % 2 == 1
            target = {'type': 'block', 'reduction': rng.random() < 0.5, 'steady': (idx // 16) % 2 == 1,
                      'text': ('x = 0.5*x + log(g) + sqrt(4.0)\ny = exp(0.0)*x%s\nz0 = log(10.0)\nz0(0) = log(100.0)\nMaxTime = %d\nexogenous\ng = [2.0, 3.0, 4.0, 5.0, 6.0, 7.0, 8.0]'
                               % (' + half(x)' if uses_unregistered else '', rng.randint(2, 5)))}
            hist = [{'op': 'rival_math_names', 'name': 'SIM', 'maxtime': 1}] + hist[:3]
        if idx % 8 == 5 and (idx // 8) % 2 == 1:
            if (idx // 16) % 2 == 0:
                # a model put together in two stages, with other (smaller and larger) models created and solved in between
                target = {'type': 'staged_sim', 'a1': rng.choice([0.6, 0.7]), 'a2': rng.choice([0.3, 0.4]), 'tax': rng.choice([0.2, 0.25]),
                          'g': [float(rng.randint(10, 30)) for _ in range(8)], 'maxtime': rng.randint(2, 5)}
                hist = [{'op': 'small_models_between_stages', 'name': 'SIM', 'maxtime': 2}] + hist[:2]
            else:
                # a hand-written block with a heading line that is not an equation (reported with a warning, otherwise ignored),
                # after complete model runs earlier in the process
                target = {'type': 'block', 'reduction': rng.random() < 0.5, 'steady': False,
                          'text': 'Income block\ny = c + g\nc = %r*y\n-- end of block --\nMaxTime = %d\nexogenous\ng = [%r]*9'
                                  % (rng.choice([0.5, 0.6]), rng.randint(2, 6), float(rng.randint(5, 20)))}
                hist = [{'op': 'build_solve', 'name': rng.choice(['SIM', 'PC']), 'maxtime': 2}] + hist[:2]
            settings['trace'] = None
            settings['resolves'] = 0
        if idx % 8 == 5 and (idx // 8) % 2 == 0:
            # the target uses user functions AND the steady-state option; earlier in the process another solver was given exactly
            # the same text and the same options but OTHER callables under the same names
            target = {'type': 'block', 'reduction': rng.random() < 0.5, 'steady': True, 'funcs': True,
                      'text': 'u = half(u) + %r\nw = damp(u, LAG_w)\nLAG_w = w(k-1)\nz = 0.5*LAG_w + g\nw(0) = %r\nMaxTime = %d\nexogenous\ng = [%r]*9'
                              % (rng.choice([1.0, 2.5]), rng.choice([0.0, 3.0]), rng.randint(2, 6), float(rng.randint(1, 9)))}
            hist.insert(rng.randint(0, len(hist)), {'op': 'same_text_other_functions', 'name': 'SIM', 'maxtime': 1})
            settings['trace'] = None
        if target.get('funcs') and rng.random() < 0.7 and not (idx % 8 == 5 and (idx // 8) % 2 == 0):
            settings['trace'] = 1
        return {'kind': 'history', 'target': target, 'history': hist, 'settings': settings}

    # ------------------------------------------------------------------------------------------
    def do_op(self, op, target, hooks, rec):
        from vf import ambient
        from sfc_models.models import Model, Country
        from sfc_models.sector import Market, Sector
        from sfc_models.sector_definitions import Household
        from sfc_models.equation_solver import EquationSolver
        try:
            with contextlib.redirect_stdout(io.StringIO()):
                if op['op'] == 'build_solve':
                    ambient.build_book(op['name'], max_time=op['maxtime'])
                elif op['op'] == 'build_only':
                    ambient.build_book(op['name'], max_time=op['maxtime'], solve=False)
                    m = Model()
                    c = Country(m, 'ZZ', 'unfinished')
                    h = Household(c, 'HH', 'hh')
                    h.GetVariableName('F')   # placeholder registered and never fixed
                elif op['op'] == 'failed_build':
                    m = Model()
                    c = Country(m, 'FF', 'fails')
                    Household(c, 'HH', 'hh')
                    Market(c, 'GOOD', 'no supplier')
                    try:
                        m.main()
                    except Exception:
                        pass
                elif op['op'] == 'other_solver':
                    s = EquationSolver('x = 0.5*x + f2(y)\ny = 0.25*x + 1\nMaxTime = 3')
                    s.AddFunction('f2', lambda v: 0.5 * v)
                    s.TraceStep = 2
                    s.SolveEquation()
                elif op['op'] == 'failed_solver':
                    s = EquationSolver('x = 3*x + 1\nMaxTime = 2')
                    s.MaxIterations = 20
                    try:
                        s.SolveEquation()
                    except ValueError:
                        pass
                elif op['op'] == 'interleave':
                    def hook():
                        m = Model()
                        c1 = Country(m, 'I1', 'interleaved 1')
                        c2 = Country(m, 'I2', 'interleaved 2')
                        h1 = Household(c1, 'HH', 'hh')
                        h1.GetVariableName('INC')
                        Sector(c2, 'S', 's').AddVariable('X', 'x', '1.0')
                    hooks.append(hook)
                elif op['op'] == 'rival_functions':
                    def rival():
                        r = EquationSolver('x = 0.5*half(x) + damp(y, 1.0)\ny = 0.25*x + 1\nMaxTime = 2')
                        r.AddFunction('half', lambda v: 3.0 * v + 7.0)
                        r.AddFunction('damp', lambda a, b: 11.0)
                        r.AddFunction('f2', lambda v: -v)
                        try:
                            r.SolveEquation()
                        except ValueError:
                            pass
                    rival()              # before the target is configured ...
                    hooks.append(rival)  # ... and again between its configuration and its solve
                elif op['op'] == 'rival_math_names':
                    def rival_math():
                        r = EquationSolver('q = 0.5*q + log(g) + sqrt(half(g))\nq(0) = exp(1.0)\nMaxTime = 2\nexogenous\ng = [exp(1.0)]*4')
                        r.AddFunction('log', lambda v: -7.0)
                        r.AddFunction('sqrt', lambda v: 100.0)
                        r.AddFunction('exp', lambda v: 3.0)
                        r.AddFunction('half', lambda v: 0.5 * v)
                        r.ParameterSolveInitialSteadyState = True
                        r.ParameterInitialSteadyStateMaxTime = 40
                        try:
                            r.SolveEquation()
                        except ValueError:
                            pass
                    rival_math()
                    hooks.append(rival_math)
                    rec.count('history.other_solver_registered_functions_named_like_math_functions')
                elif op['op'] == 'small_models_between_stages':
                    calls = [0]

                    def stage_hook():
                        # every pause creates (and solves) a small model of another size: 0, 1, 2, ... objects
                        calls[0] += 1
                        # (sizes chosen so that, were identifiers handed out per model, the next object of the staged model would
                        # take the identifier of one declared two steps earlier)
                        for n_obj in (7, max(0, calls[0] - 3)):
                            m_ = Model()
                            if n_obj:
                                c_ = Country(m_, 'ZZ', 'between the stages')
                                for i_ in range(n_obj - 1):
                                    Sector(c_, 'S%d' % i_, 'x', has_F=False).AddVariable('X', 'x', '1.0')
                                m_.MaxTime = 1
                                m_.main()
                    hooks.append(stage_hook)
                    rec.count('history.small_models_created_and_solved_between_two_construction_stages')
                elif op['op'] == 'same_text_other_functions':
                    o = EquationSolver(run_equation_reduction=target.get('reduction', True))
                    o.MaxIterations = 4000
                    o.AddFunction('half', lambda v: 0.25 * v + 3.0)
                    o.AddFunction('damp', lambda a, b: 0.2 * a + 0.1 * b + 1.0)
                    o.ParameterSolveInitialSteadyState = True
                    o.ParameterInitialSteadyStateMaxTime = 60
                    o.ParseString(target['text'])
                    o.SolveEquation()
                    rec.count('history.same_text_and_options_solved_with_other_callables_under_the_same_names')
                elif op['op'] == 'other_solver_excludes':
                    import re as _re
                    names = _re.findall(r'(?m)^\s*([A-Za-z_]\w*)\s*=', target.get('text', 'x = 1'))
                    o = EquationSolver('x = 0.5*LAG_x + 1\nLAG_x = x(k-1)\nMaxTime = 2')
                    for nm in names:
                        o.ParameterInitialSteadyStateExcludedVariables.append(nm)
                    o.ParameterInitialSteadyStateExcludedVariables += ['x']
                    o.ParameterSolveInitialSteadyState = True
                    o.SolveEquation()
                    rec.count('history.exclusion_list_of_another_solver_edited_in_place')
                elif op['op'] == 'same_target_before':
                    compute_target(target)
            rec.count('history.ops')
        except Exception as e:
            rec.count('history.op_failed')

    def run_case(self, case):
        from sfc_models.utils import Logger
        rec = monitors.Recorder()
        if case['kind'] == 'reparse':
            return self.run_reparse(case, rec)
        ref, err = fresh(case['target'])
        if ref is None:
            return {'verdict': 'inconclusive', 'reason': 'fresh subprocess failed: %s' % err}
        hooks = []
        for op in case['history']:
            self.do_op(op, case['target'], hooks, rec)
        tmp = tempfile.mkdtemp(prefix='vf_c17_')
        settings = dict(case['settings'])
        settings['between_build_and_main'] = hooks
        settings['between_config_and_solve'] = hooks
        settings['mid_construction'] = hooks
        try:
            got = compute_target(case['target'], settings, tmpdir=tmp)
        except Exception as e:
            rec.violate('target_fails_after_history', {'err': repr(e)[:300], 'history': case['history'],
                                                       'settings': case['settings']})
            got = None
        finally:
            try:
                Logger.cleanup()
            except Exception:
                pass
            shutil.rmtree(tmp, ignore_errors=True)
        s = case['settings']
        if s['logging']:
            rec.count('logging.on')
        if s['trace'] is not None:
            rec.count('trace.on')
        if s['resolves']:
            rec.count('resolve.on')
        if case['target'].get('steady'):
            rec.count('steady_state_option.on')
        if got is not None:
            rec.count('fresh_vs_history.compared')
            if '__resolve_differs__' in got:
                rec.violate('re_solve_changed_series', {'vars': got['__resolve_differs__'], 'settings': case['settings']})
            elif sorted(got) != sorted(ref):
                rec.violate('series_set_differs_from_fresh_process', {'only_fresh': sorted(set(ref) - set(got))[:8],
                                                                      'only_history': sorted(set(got) - set(ref))[:8]})
            else:
                for n in ref:
                    rec.count('series.compared')
                    if ref[n] != got[n]:
                        rec.violate('series_differs_from_fresh_process', {'var': n, 'fresh': ref[n][:6], 'after_history': got[n][:6],
                                                                          'history': case['history'], 'settings': case['settings']})
                        break
        nontrivial = len(case['history']) >= 2 or s['logging'] or s['trace'] is not None or s['resolves'] > 0
        return {'verdict': 'violated' if rec.violations else 'held', 'nontrivial': nontrivial,
                'shape': case['target']['type'] + '|' + case['target'].get('name', 'block'), 'counters': rec.counters,
                'violations': rec.violations,
                'obs': {'n_series': len(ref), 'history': [o['op'] for o in case['history']], 'settings': case['settings']}}

    def run_reparse_mode(self, case, rec):
        """Error paths on a re-used solver: what it computes after the caller caught an exception equals what a fresh
        solver computes when treated the same way."""
        import warnings
        from sfc_models.equation_solver import EquationSolver
        mode = case['mode']

        def job(s):
            if mode == 'warning_raised_as_error':
                with warnings.catch_warnings():
                    warnings.simplefilter('error')
                    try:
                        s.ParseString(case['B'])
                    except Warning:
                        pass
                s.SolveEquation()
            else:
                s.ParseString(case['B'])
                s.ParameterSolveInitialSteadyState = True
                s.ParameterInitialSteadyStateMaxTime = 20
                try:
                    s.SolveEquation()
                    return 'search_succeeded'
                except ValueError:
                    pass
                s.ParameterSolveInitialSteadyState = False
                s.SolveEquation()
            return 'ok'
        with contextlib.redirect_stdout(io.StringIO()):
            fresh_b = EquationSolver(run_equation_reduction=case['reduction'])
            fresh_b.MaxIterations = 4000
            plain = EquationSolver(run_equation_reduction=case['reduction'])
            plain.MaxIterations = 4000
            try:
                o1 = job(fresh_b)
                with warnings.catch_warnings():
                    warnings.simplefilter('ignore')
                    plain.ParseString(case['B'])
                plain.SolveEquation()
            except Exception as e:
                return {'verdict': 'notjudged', 'shape': 'reparse|' + mode + '|fresh_failed:' + type(e).__name__}
            if o1 != 'ok':
                return {'verdict': 'notjudged', 'shape': 'reparse|' + mode + '|' + o1}
            s = EquationSolver(run_equation_reduction=case['reduction'])
            s.MaxIterations = 4000
            try:
                s.ParseString(case['A'])
                if case['solve_A']:
                    s.SolveEquation()
            except ValueError:
                pass
            try:
                job(s)
            except Exception as e:
                rec.violate('reparsed_solver_fails', {'err': repr(e)[:300], 'mode': mode, 'B': case['B']})
                return {'verdict': 'violated', 'shape': 'reparse|' + mode, 'counters': rec.counters, 'violations': rec.violations}
        rec.count('reparse.judged')
        rec.count('reparse.' + mode)
        ref = series_repr(plain.TimeSeries)
        for name, ser in (('fresh solver treated the same way', fresh_b), ('re-used solver', s)):
            got = series_repr(ser.TimeSeries)
            if sorted(got) != sorted(ref):
                rec.violate('remnants_of_previous_block', {'who': name, 'mode': mode, 'extra': sorted(set(got) - set(ref))[:8],
                                                           'missing': sorted(set(ref) - set(got))[:8]})
                break
            if got != ref:
                bad = [n for n in ref if ref[n] != got[n]][:5]
                rec.violate('reparsed_values_differ_from_fresh_solver', {'who': name, 'mode': mode, 'vars': bad,
                                                                         'plain': {n: ref[n][:4] for n in bad}, 'got': {n: got[n][:4] for n in bad}})
                break
        return {'verdict': 'violated' if rec.violations else 'held', 'nontrivial': True, 'shape': 'reparse|' + mode,
                'counters': rec.counters, 'violations': rec.violations, 'obs': {'mode': mode}}

    def run_reparse(self, case, rec):
        if case.get('mode'):
            return self.run_reparse_mode(case, rec)
        from sfc_models.equation_solver import EquationSolver
        with contextlib.redirect_stdout(io.StringIO()):
            fresh_b = EquationSolver(run_equation_reduction=case['reduction'])
            fresh_b.MaxIterations = 4000
            try:
                fresh_b.ParseString(case['B'])
                fresh_b.SolveEquation()
            except ValueError as e:
                return {'verdict': 'notjudged', 'shape': 'reparse|B_failed'}
            s = EquationSolver(run_equation_reduction=case['reduction'])
            s.MaxIterations = 4000
            try:
                s.ParseString(case['A'])
                if case['solve_A']:
                    s.SolveEquation()
            except ValueError:
                pass
            try:
                s.ParseString(case['B'])
                s.SolveEquation()
            except Exception as e:
                rec.violate('reparsed_solver_fails', {'err': repr(e)[:300], 'A': case['A'], 'B': case['B']})
                return {'verdict': 'violated', 'shape': 'reparse', 'counters': rec.counters, 'violations': rec.violations}
        rec.count('reparse.judged')
        if case.get('B_omits_run_parameters'):
            rec.count('reparse.second_block_without_run_parameter_lines')
        if case.get('B_is_scenario_of_A'):
            rec.count('reparse.second_block_is_scenario_with_same_names_and_horizon')
        if case.get('B_is_empty'):
            rec.count('reparse.second_block_is_empty')
        keys = sorted(s.TimeSeries.keys())
        if keys != case['B_names']:
            rec.violate('remnants_of_previous_block', {'extra': sorted(set(keys) - set(case['B_names'])),
                                                       'missing': sorted(set(case['B_names']) - set(keys))})
        elif series_repr(s.TimeSeries) != series_repr(fresh_b.TimeSeries):
            rec.violate('reparsed_values_differ_from_fresh_solver', {'B': case['B']})
        return {'verdict': 'violated' if rec.violations else 'held', 'nontrivial': True, 'shape': 'reparse',
                'counters': rec.counters, 'violations': rec.violations, 'obs': {'keys': keys[:10]}}


PROP = C17()

if __name__ == '__main__':
    from vf import repo
    repo.activate()
    tgt = json.loads(sys.argv[1])
    print(json.dumps(compute_target(tgt)))
