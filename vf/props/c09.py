"""C09 - textbook models obey their difference equations for any parameters."""
import contextlib
import io
from fractions import Fraction as Fr

from vf import monitors
from vf.oracle import qsolve as Q


def F(x):
    return Fr(float(x))


def closed_sim(p, G, H0, T, expectations=False, YD0=None):
    a1, a2, th = F(p['a1']), F(p['a2']), F(p['th'])
    H = [F(H0)]
    out = {'Y': [None], 'T': [None], 'YD': [F(YD0) if YD0 is not None else None], 'C': [None], 'H': H}
    for k in range(1, T + 1):
        g = F(G[k])
        if expectations:
            C = a1 * out['YD'][k - 1] + a2 * H[k - 1]
            Y = g + C
        else:
            Y = (g + a2 * H[k - 1]) / (1 - a1 * (1 - th))
            C = None
        Tx = th * Y
        YD = Y - Tx
        if C is None:
            C = a1 * YD + a2 * H[k - 1]
        out['Y'].append(Y)
        out['T'].append(Tx)
        out['YD'].append(YD)
        out['C'].append(C)
        H.append(H[k - 1] + YD - C)
    return out


def closed_pc(p, G, r, V0, B0, T):
    a1, a2, th = F(p['a1']), F(p['a2']), F(p['th'])
    l0, l1, l2 = F(p['l0']), F(p['l1']), F(p['l2'])
    V, Bh = [F(V0)], [F(B0)]
    out = {'Y': [None], 'T': [None], 'YD': [None], 'C': [None], 'V': V, 'B': Bh, 'H': [F(V0) - F(B0)]}
    for k in range(1, T + 1):
        g = F(G[k])
        intr = F(r[k - 1]) * Bh[k - 1]
        Y = (g + a1 * (1 - th) * intr + a2 * V[k - 1]) / (1 - a1 * (1 - th))
        Tx = th * (Y + intr)
        YD = Y - Tx + intr
        C = a1 * YD + a2 * V[k - 1]
        Vk = V[k - 1] + YD - C
        Bk = Vk * (l0 + l1 * F(r[k])) - l2 * YD
        out['Y'].append(Y)
        out['T'].append(Tx)
        out['YD'].append(YD)
        out['C'].append(C)
        V.append(Vk)
        Bh.append(Bk)
        out['H'].append(Vk - Bk)
    return out


# a portfolio rule the USER keeps as a constant and applies to every PC household he builds (household-local names only)
PC_USER_RULE = {'DEP': 'L0 + L1 * RLOC - L2 * (AfterTax/F)'}


class C09(object):
    id = 'C09'
    anchors = ('BaseHousehold.__init__', 'HouseholdWithExpectations.__init__', 'TaxFlow._GenerateEquations', 'DepositMarket._GenerateEquations', 'Sector.GenerateAssetWeighting', 'ModelSIMiterative.RunStep', 'ModelSIMiterative.RunMethod2')
    title = 'Textbook models obey their difference equations for any parameters'
    rule = ('one case = one parameter vector (alpha1 0.3-0.95, alpha2 0.05-0.6, theta 0.05-0.5, lambda0 0.4-0.8, lambda1 0-5, '
            'lambda2 0-0.05; on the 4-decimal grid or with full float precision), random government-spending and '
            'interest-rate paths, zero or non-zero consistent initial stocks, horizon 5-40, applied to the bundled '
            'builders SIM, SIMEX1, PC through their public attributes, or to the hand-coded ModelSIMiterative (RunStep and '
            'RunMethod2); the series Y, T, YD, C, H/V (and B_h, H_h for PC) of the real model are compared with the '
            "book's recursions evaluated independently in Fraction arithmetic: for SIM/SIMEX1 (affine) the exact "
            're-solution of the emitted text must EQUAL the closed form, and the solver floats must be within 1e-6 '
            'relative (tolerance 1e-10); PC (one non-affine equation) floats within 1e-6; ModelSIMiterative within its own '
            'stop rule 0.002*(k+1)/(1-alpha1*(1-theta)); distinct = hash of case; non-trivial = horizon >= 5 and Y > 1')
    assumptions = ['admissible parameters keep the portfolio share inside (0,1) and wealth positive',
                   'REG/REG2/OPENG are not claimed by the property']
    required_counters = ('SIM.judged', 'SIMEX1.judged', 'PC.judged', 'iterative.judged', 'exact_equalities.judged',
                         'offgrid.judged', 'nonzero_initial_stocks.judged', 'PAIR.judged', 'book_exogenous_overwritten.cases',
                         'parameters_as_exogenous_series.cases', 'solver_object_shared_with_an_earlier_model.cases',
                         'PC.initial_bills_explicitly_zero.cases',
                         'PC.initial_bills_left_to_the_portfolio_rule.cases',
                         'solved_again_after_a_failure_at_a_later_period.cases',
                         'PC.portfolio_rule_object_kept_and_reapplied_by_the_user.cases',
                         'steady_state_start_with_the_models_own_tolerance.cases',
                         'steady_start.accuracy_compared_with_plain_run_from_the_same_start')

    def n_cases(self, tier):
        return 60 if tier == 'quick' else 6000

    def make_case(self, rng, idx, tier):
        grid = rng.random() < 0.4

        def par(lo, hi):
            v = rng.uniform(lo, hi)
            return round(v, 4) if grid else v
        T = rng.randint(5, 40) if tier == 'thorough' else rng.randint(5, 14)
        p = {'a1': par(0.3, 0.95), 'a2': par(0.05, 0.6), 'th': par(0.05, 0.5),
             'l0': par(0.4, 0.8), 'l1': par(0.0, 5.0), 'l2': par(0.0, 0.05)}
        G = [float(rng.randint(5, 40)) if rng.random() < 0.7 else rng.uniform(5, 40) for _ in range(T + 3)]
        r = [rng.choice([0.0, 0.01, 0.025, 0.04, 0.05]) if rng.random() < 0.7 else rng.uniform(0, 0.05)
             for _ in range(T + 3)]
        which = ['SIM', 'SIMEX1', 'PC', 'PC', 'ITER_step', 'ITER_m2', 'PAIR'][idx % 7]
        stocks = rng.random() < 0.6
        V0 = float(rng.randint(20, 120)) if stocks else 0.0
        if which == 'PC':
            V0 = float(rng.randint(40, 120))
        case = {'kind': which, 'p': p, 'G': G, 'r': r, 'T': T, 'V0': V0, 'grid': grid,
                'YD0': float(rng.randint(5, 30)),
                # build with the book's own exogenous paths first and then overwrite them (AddExogenous: "Overwrites
                # an existing variable definition")
                'book_first': rng.random() < 0.4,
                # propensities, tax rate (and PC's lambdas) supplied as constant exogenous series instead of attributes,
                # as the bundled scripts ex20190324_consumption_propensity / ex20190412_oscillate_wildly do
                'params_exogenous': (idx // 7) % 2 == 1,
                # one solver object shared by two models (a parameter sweep that re-uses its configured solver)
                'shared_solver': (idx // 7) % 3 == 2,
                # PC: all initial wealth held as cash - the initial bill holding is an explicit 0.0
                'B0_zero': which == 'PC' and (idx // 7) % 4 == 1,
                # PC started from household wealth and disposable income only: the initial bill holding is what the
                # portfolio rule gives at k=0 (the solver derives it from the declared values)
                'B0_derived': which == 'PC' and (idx // 7) % 4 == 3,
                'retry_after_failure': (idx // 7) % 3 == 1,
                'user_rule': which == 'PC' and (idx // 7) % 2 == 0,
                # the solver's own steady-state start (for G[0]) followed by the spending path; the accuracy is the one the
                # Model writes into its equation block (Err_Tolerance=1e-6), no tolerance parameter is set on the solver
                'steady_start': which in ('SIM', 'SIMEX1') and (idx // 7) % 6 == 0}
        if case['B0_derived']:
            case['book_first'] = False      # the builder's book mode declares its own initial bill holding
        if which == 'PAIR':
            case['T'] = min(T, 10)
            case['members'] = []
            for code in ('A', 'B'):
                pp = {'a1': par(0.3, 0.95), 'a2': par(0.05, 0.6), 'th': par(0.05, 0.5),
                      'l0': par(0.4, 0.8), 'l1': par(0.0, 5.0), 'l2': par(0.0, 0.05)}
                case['members'].append({'code': code, 'which': rng.choice(['SIM', 'SIMEX1', 'PC']), 'p': pp,
                                        'G': [float(rng.randint(5, 40)) for _ in range(T + 3)],
                                        'r': [rng.choice([0.0, 0.01, 0.025, 0.04]) for _ in range(T + 3)],
                                        'V0': float(rng.randint(40, 120)), 'YD0': float(rng.randint(5, 30))})
            case['interleave_model'] = rng.random() < 0.6
        if which == 'ITER_m2':
            p['a1'] = min(p['a1'], 0.8)
            case['T'] = min(T, 12)
        return case

    # ------------------------------------------------------------------------------------------
    def configure(self, b, mod, which, p, G, r, V0, YD0, T, prefix='', params_exogenous=False, B0_zero=False,
                  B0_derived=False, user_rule=False):
        """Set parameters/paths/initial stocks of one book economy through the public API; returns
        (closed form, {symbol: series name})."""
        c = b.Country
        hh = c['HH']
        if params_exogenous:
            hh.SetExogenous('AlphaIncome', [p['a1']] * (T + 3))
            hh.SetExogenous('AlphaFin', [p['a2']] * (T + 3))
            c['TF'].SetExogenous('TaxRate', [p['th']] * (T + 3))
        else:
            hh.AlphaIncome = p['a1']
            hh.AlphaFin = p['a2']
            c['TF'].TaxRate = p['th']
        names = {'Y': prefix + 'GOOD__SUP_GOOD', 'YD': prefix + 'HH__AfterTax', 'C': prefix + 'HH__DEM_GOOD'}
        if which == 'PC':
            c['TRE'].SetExogenous('DEM_GOOD', list(G))
            c['DEP'].SetExogenous('r', list(r))
            if user_rule:
                # the rule object has already been applied to the household of another PC economy (never solved)
                from vf import ambient as _amb
                b_prev = _amb.book_builders()['PC'](country_code='P0', use_book_exogenous=False)
                b_prev.build_model()
                h_prev = b_prev.Country['HH']
                h_prev.AddVariable('RLOC', 'the deposit rate under a household-local name', b_prev.Country['DEP'].GetVariableName('r'))
                h_prev.GenerateAssetWeighting(PC_USER_RULE, 'MON')
                hh.AddVariable('RLOC', 'the deposit rate under a household-local name', c['DEP'].GetVariableName('r'))
                hh.GenerateAssetWeighting(PC_USER_RULE, 'MON')
            for lv, key in (('L0', 'l0'), ('L1', 'l1'), ('L2', 'l2')):
                if params_exogenous:
                    hh.SetExogenous(lv, [p[key]] * (T + 3))
                else:
                    hh.SetEquationRightHandSide(lv, repr(p[key]))
            B0 = V0 * (p['l0'] + p['l1'] * r[0]) - p['l2'] * YD0
            B0 = float(min(max(B0, 0.1 * V0), 0.9 * V0))
            if B0_zero:
                B0 = 0.0
            if B0_derived:
                B0 = V0 * (p['l0'] + p['l1'] * r[0]) - p['l2'] * YD0
                ics = (('HH', 'F', V0), ('TRE', 'F', -V0), ('HH', 'AfterTax', YD0))
            else:
                ics = (('HH', 'F', V0), ('HH', 'DEM_DEP', B0), ('HH', 'DEM_MON', V0 - B0),
                       ('TRE', 'F', -V0), ('TRE', 'SUP_DEP', V0), ('CB', 'DEM_DEP', V0 - B0),
                       ('HH', 'AfterTax', YD0))
            for role, var, val in ics:
                c[role].AddInitialCondition(var, val)
            cf = closed_pc(p, G, r, V0, B0, T)
            names.update({'T': prefix + 'TRE__T', 'V': prefix + 'HH__F', 'B': prefix + 'HH__DEM_DEP',
                          'H': prefix + 'HH__DEM_MON'})
        else:
            c['GOV'].SetExogenous('DEM_GOOD', list(G))
            if V0:
                c['HH'].AddInitialCondition('F', V0)
                c['GOV'].AddInitialCondition('F', -V0)
            if which == 'SIMEX1':
                c['HH'].AddInitialCondition('AfterTax', YD0)
            cf = closed_sim(p, G, V0, T, expectations=(which == 'SIMEX1'), YD0=YD0)
            names.update({'T': prefix + 'GOV__T', 'H': prefix + 'HH__F'})
        return cf, names

    def compare(self, rec, V, cf, names, T, ctx, limit=1e-6):
        worst = 0.0
        for key, name in names.items():
            if name not in V:
                rec.violate('expected_series_missing', dict(ctx, series=name))
                continue
            for k in range(1, T + 1):
                exp = cf[key][k]
                got = V[name][k]
                d = abs(got - float(exp)) / max(1.0, abs(float(exp)))
                worst = max(worst, d)
                if not d <= limit:
                    rec.violate('series_differs_from_book_recursion',
                                dict(ctx, series=name, symbol=key, k=k, model_value=got, closed_form=float(exp)))
                    break
        return worst

    def run_pair(self, case):
        """Two book economies with different parameters in ONE model (optionally with an unrelated Model() created
        in between): each must follow its own closed form."""
        from vf import ambient
        from sfc_models.models import Model
        rec = monitors.Recorder()
        T = case['T']
        big = Model()
        members = []
        for i, m in enumerate(case['members']):
            if i and case.get('interleave_model'):
                Model()
            b = ambient.book_builders()[m['which']](country_code=m['code'], model=big, use_book_exogenous=False)
            b.build_model()
            members.append((m, b))
        cfs = []
        for m, b in members:
            cfs.append(self.configure(b, big, m['which'], m['p'], m['G'], m['r'], m['V0'], m['YD0'], T,
                                      prefix=m['code'] + '_'))
        big.MaxTime = T
        big.EquationSolver.MaxIterations = 5000
        big.EquationSolver.ParameterErrorTolerance = 1e-10
        try:
            with contextlib.redirect_stdout(io.StringIO()):
                big.main()
        except Exception as e:
            rec.violate('two_book_economies_in_one_model_fail', {'members': [m['which'] for m, _ in members],
                                                                 'err': repr(e)[:300]})
            return {'verdict': 'violated', 'shape': 'PAIR', 'counters': rec.counters, 'violations': rec.violations}
        V = big.EquationSolver.TimeSeries
        rec.count('PAIR.judged')
        worst = 0.0
        for (m, b), (cf, names) in zip(members, cfs):
            worst = max(worst, self.compare(rec, V, cf, names, T, {'model': m['which'], 'country': m['code'],
                                                                   'params': m['p']}))
        return {'verdict': 'violated' if rec.violations else 'held', 'nontrivial': True,
                'shape': 'PAIR|' + '+'.join(m['which'] for m, _ in members), 'counters': rec.counters,
                'violations': rec.violations[:3], 'obs': {'members': [m['which'] for m, _ in members], 'T': T,
                                                          'worst_rel': worst},
                'worst': {'rel_vs_closed_form': worst}}

    def run_steady_start(self, case):
        from vf import ambient
        from vf.oracle import block as B
        rec = monitors.Recorder()
        p, T, which = case['p'], case['T'], case['kind']
        b = ambient.book_builders()[which](country_code='C1', use_book_exogenous=False)
        mod = b.build_model()
        mod.MaxTime = T
        sv = mod.EquationSolver
        sv.MaxIterations = 5000
        sv.ParameterSolveInitialSteadyState = True
        cf, names = self.configure(b, mod, which, p, case['G'], case['r'], case['V0'], case['YD0'], T)
        try:
            with contextlib.redirect_stdout(io.StringIO()):
                mod.main()
        except Exception as e:
            return {'verdict': 'notjudged', 'shape': which + '|steady_start|' + type(e).__name__, 'obs': {'err': repr(e)[:200]}}
        V = sv.TimeSeries
        rec.count(which + '.judged')
        rec.count('steady_state_start_with_the_models_own_tolerance.cases')
        # (1) the emitted equations hold on the returned series to the accuracy the emitted block asks for
        blk = B.split_block(mod.FinalEquations)
        tol = float(blk['tol']) if blk['tol'] is not None else 1e-6
        viol, stats = B.check_solution(blk, dict(V), tol)
        for v in viol[:2]:
            rec.violate('series_do_not_satisfy_the_models_equations_to_its_tolerance',
                        dict(v['detail'], kind=v['kind'], model=which, note='steady-state start, Err_Tolerance line of the model'))
        # (1b) what "within solver tolerance" means here is measured, not assumed: the same emitted block is solved from the same
        # k=0 values by a plain solver at the block's tolerance (A) and at 1e-12 (R); the steady-state start must not leave the
        # main run further from R than A is (factor 10)
        import re as _re
        from sfc_models.equation_solver import EquationSolver as _ES
        body = '\n'.join(l for l in mod.FinalEquations.split('\n') if not _re.match(r'^\s*[A-Za-z_][A-Za-z_0-9]*\(0\)\s*=', l))
        state = [n for n, _ in blk['endo']] + [n for n, _ in blk['lag']]
        twin_text = '\n'.join('%s(0) = %r' % (n, float(V[n][0])) for n in state if n in V and n not in ('t', 'k')) + '\n' + body
        runs = {}
        try:
            for tag, tol_ in (('A', None), ('R', 1e-12)):
                sv2 = _ES()
                sv2.MaxIterations = 20000
                sv2.ParameterErrorTolerance = tol_
                with contextlib.redirect_stdout(io.StringIO()):
                    sv2.ParseString(twin_text)
                    sv2.SolveEquation()
                runs[tag] = sv2.TimeSeries
        except Exception as e:
            return {'verdict': 'notjudged', 'shape': which + '|steady_start|twin:' + type(e).__name__, 'obs': {'err': repr(e)[:200]}}

        def dist(X):
            w = 0.0
            for n in state:
                if n in X and n in runs['R']:
                    for k in range(1, T + 1):
                        w = max(w, abs(X[n][k] - runs['R'][n][k]) / max(1.0, abs(runs['R'][n][k])))
            return w
        err_S, err_A = dist(V), dist(runs['A'])
        rec.count('steady_start.accuracy_compared_with_plain_run_from_the_same_start')
        if err_S > 10.0 * err_A + 1e-10:
            rec.violate('main_run_after_steady_state_start_less_accurate_than_the_models_tolerance_gives',
                        {'model': which, 'distance_to_tight_solution_with_steady_state_start': err_S,
                         'distance_of_a_plain_run_from_the_same_k0_values_at_the_models_tolerance': err_A, 'params': p})
        # (2) the book's recursion from the model's own k=0 stocks (100 x the solver tolerance: a sanity bound)
        cf = closed_sim(p, case['G'], V['HH__F'][0], T, expectations=(which == 'SIMEX1'), YD0=V['HH__AfterTax'][0])
        worst = self.compare(rec, V, cf, names, T, {'model': which, 'params': p, 'steady_start': True}, limit=1e-4)
        return {'verdict': 'violated' if rec.violations else 'held', 'nontrivial': True, 'shape': which + '|steady_start',
                'counters': rec.counters, 'violations': rec.violations[:3],
                'obs': {'params': p, 'T': T, 'worst_rel': worst, 'worst_residual_ratio': stats['worst_ratio']},
                'worst': {'rel_vs_closed_form': worst}}

    def run_case(self, case):
        if case['kind'].startswith('ITER'):
            return self.run_iterative(case)
        if case.get('steady_start'):
            return self.run_steady_start(case)
        if case['kind'] == 'PAIR':
            return self.run_pair(case)
        from vf import ambient
        rec = monitors.Recorder()
        p, T = case['p'], case['T']
        which = case['kind']
        shared = None
        if case.get('shared_solver'):
            # the solver first does another job: the same book model with other parameters and paths
            from sfc_models.equation_solver import EquationSolver
            shared = EquationSolver()
            b0 = ambient.book_builders()[which](country_code='C1', use_book_exogenous=False)
            mod0 = b0.build_model()
            mod0.MaxTime = max(2, T // 2)
            mod0.EquationSolver = shared
            shared.MaxIterations = 5000
            p0 = dict(p, a1=min(0.9, p['a1'] * 0.8 + 0.1), th=p['th'] * 0.5 + 0.05)
            self.configure(b0, mod0, which, p0, [g_ + 3.0 for g_ in case['G']], case['r'], case['V0'], case['YD0'], mod0.MaxTime)
            try:
                with contextlib.redirect_stdout(io.StringIO()):
                    mod0.main()
            except Exception:
                pass
            rec.count('solver_object_shared_with_an_earlier_model.cases')
        b = ambient.book_builders()[which](country_code='C1', use_book_exogenous=bool(case.get('book_first')))
        mod = b.build_model()
        if shared is not None:
            mod.EquationSolver = shared
        mod.MaxTime = T
        mod.EquationSolver.MaxIterations = 5000
        mod.EquationSolver.ParameterErrorTolerance = 1e-10
        V0 = case['V0']
        if case.get('retry_after_failure') and shared is None and which in ('SIM', 'SIMEX1'):
            # quiet first periods (the economy starts in the stationary state of G[0]), then spending jumps a thousandfold
            g_ = case['G'][0]
            yd_ = g_ / p['th'] * (1.0 - p['th'])
            case = dict(case, G=[g_] * 3 + [1000.0 * g_] * (T + 3), V0=(1.0 - p['a1']) * yd_ / p['a2'], YD0=yd_)
            V0 = case['V0']
        cf, names = self.configure(b, mod, which, p, case['G'], case['r'], V0, case['YD0'], T,
                                   params_exogenous=bool(case.get('params_exogenous')), B0_zero=bool(case.get('B0_zero')),
                                   B0_derived=bool(case.get('B0_derived')), user_rule=bool(case.get('user_rule')))
        if case.get('user_rule'):
            rec.count('PC.portfolio_rule_object_kept_and_reapplied_by_the_user.cases')
        if case.get('B0_derived'):
            rec.count('PC.initial_bills_left_to_the_portfolio_rule.cases')
        if case.get('B0_zero'):
            rec.count('PC.initial_bills_explicitly_zero.cases')
        if case.get('params_exogenous'):
            rec.count('parameters_as_exogenous_series.cases')
        if case.get('book_first'):
            rec.count('book_exogenous_overwritten.cases')
        retried = False
        if case.get('retry_after_failure') and shared is None:
            # the first attempt runs out of sweeps at a later period; the caller then raises the cap on the SAME solver
            # object and solves again (no re-parse): the result must still be the model's
            import re as _re
            from sfc_models.equation_solver import ConvergenceError as _CE
            caps = [10]
            while caps[-1] < 3000:
                caps.append(int(caps[-1] * 1.1) + 1)
            for cap in caps:
                mod.EquationSolver.MaxIterations = cap
                try:
                    with contextlib.redirect_stdout(io.StringIO()):
                        if cap == 10:
                            mod.main()
                        else:
                            mod.EquationSolver.SolveEquation()
                    break           # solved without ever failing late
                except _CE as e:
                    m_ = _re.search(r'step (\d+)', str(e))
                    if m_ and int(m_.group(1)) >= 2:
                        retried = True
                        break
                except Exception as e:
                    return {'verdict': 'notjudged', 'shape': which + '|' + type(e).__name__, 'obs': {'err': repr(e)[:200]}}
            if retried:
                mod.EquationSolver.MaxIterations = 5000
                try:
                    with contextlib.redirect_stdout(io.StringIO()):
                        mod.EquationSolver.SolveEquation()
                except Exception as e:
                    return {'verdict': 'notjudged', 'shape': which + '|retry:' + type(e).__name__, 'obs': {'err': repr(e)[:200]}}
                rec.count('solved_again_after_a_failure_at_a_later_period.cases')
        if not retried:
            mod.EquationSolver.MaxIterations = 5000
            try:
                with contextlib.redirect_stdout(io.StringIO()):
                    mod.main() if not case.get('retry_after_failure') or shared is not None else mod.EquationSolver.SolveEquation()
            except Exception as e:
                return {'verdict': 'notjudged', 'shape': which + '|' + type(e).__name__, 'obs': {'err': repr(e)[:200]}}
        V = mod.EquationSolver.TimeSeries
        rec.count(which + '.judged')
        if not case['grid']:
            rec.count('offgrid.judged')
        if V0:
            rec.count('nonzero_initial_stocks.judged')
        worst = self.compare(rec, V, cf, names, T, {'model': which, 'params': p, 'V0': V0,
                                                    'book_exogenous_first': bool(case.get('book_first'))})
        if which != 'PC' and not rec.violations:
            try:
                E = Q.qsolve(mod.FinalEquations, V)
            except Exception as e:
                return {'verdict': 'inconclusive', 'reason': 'exact re-solution failed: %r' % (e,)}
            for key, name in names.items():
                for k in range(1, T + 1):
                    rec.count('exact_equalities.judged')
                    if E.E[name][k] != cf[key][k]:
                        rec.violate('emitted_equations_do_not_imply_book_recursion',
                                    {'model': which, 'series': name, 'k': k, 'exact_solution': float(E.E[name][k]),
                                     'closed_form': float(cf[key][k]), 'params': p})
                        break
                if rec.violations:
                    break
        y = float(cf['Y'][T])
        return {'verdict': 'violated' if rec.violations else 'held', 'nontrivial': T >= 5 and y > 1.0,
                'shape': which + ('|grid' if case['grid'] else '|offgrid') + ('|stocks' if V0 else '|zero'),
                'counters': rec.counters, 'violations': rec.violations[:3],
                'obs': {'params': p, 'T': T, 'Y_T': y, 'worst_rel': worst}, 'worst': {'rel_vs_closed_form': worst}}

    def run_iterative(self, case):
        from sfc_models.gl_book.model_SIM_iterative import ModelSIMiterative
        rec = monitors.Recorder()
        p, T = case['p'], case['T']
        m = ModelSIMiterative()
        m.theta, m.alpha1, m.alpha2 = p['th'], p['a1'], p['a2']
        m.G = list(case['G'])
        m.H = [case['V0']]
        method = case['kind']
        try:
            for _ in range(T):
                if method == 'ITER_step':
                    m.RunStep()
                else:
                    m.RunMethod2()
        except ValueError as e:
            return {'verdict': 'notjudged', 'shape': method + '|ValueError'}
        cf = closed_sim(p, case['G'], case['V0'], T)
        rho = p['a1'] * (1 - p['th'])
        rec.count('iterative.judged')
        if case['V0']:
            rec.count('nonzero_initial_stocks.judged')
        worst = 0.0
        for key, attr in (('Y', 'Y'), ('T', 'tax'), ('YD', 'YD'), ('C', 'C'), ('H', 'H')):
            series = getattr(m, attr)
            if len(series) != T + 1:
                rec.violate('iterative_series_length', {'series': attr, 'len': len(series), 'T': T})
                continue
            for k in range(1, T + 1):
                bound = 0.002 * (k + 1) / (1 - rho)
                d = abs(series[k] - float(cf[key][k]))
                worst = max(worst, d / bound)
                if not d <= bound:
                    rec.violate('iterative_SIM_differs_from_book_recursion',
                                {'method': method, 'series': attr, 'k': k, 'value': series[k],
                                 'closed_form': float(cf[key][k]), 'bound': bound, 'params': p})
                    break
        return {'verdict': 'violated' if rec.violations else 'held', 'nontrivial': T >= 5,
                'shape': method + ('|stocks' if case['V0'] else '|zero'), 'counters': rec.counters,
                'violations': rec.violations[:3], 'obs': {'params': p, 'T': T, 'worst_over_bound': worst},
                'worst': {'iterative_over_bound': worst}}


PROP = C09()
