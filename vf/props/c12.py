"""C12 - equation-building arithmetic preserves value."""
import copy
import random
import zlib

from vf import monitors
from vf.runner import chash

BATCH = 200
POOL = ['x', 'y', 'z', 'a', 'b', 'LAG_F', 'HH__DEM_GOOD', 'w1']
DY = [1.0, 2.0, 4.0, 0.5, 3.0, 5.0, 1.5, 0.25, 6.0, 8.0, 7.0, 0.75]


def valuation(rng):
    env = {}
    for n in POOL:
        env[n] = rng.choice(DY)
    # divisors must be powers of two to keep quotients exact
    return env


def pow2_env(env, rng):
    e = dict(env)
    for n in POOL:
        e[n] = rng.choice([1.0, 2.0, 4.0, 0.5, 0.25, 8.0])
    return e


def gen_term(rng, names):
    """Returns (text, sign, core_text) with value = sign*eval(core_text)."""
    r = rng.random()
    if r < 0.55:
        core = rng.choice(names)
    elif r < 0.75:
        core = rng.choice(names) + rng.choice(['*', '*', '/']) + rng.choice(names)
    elif r < 0.83:
        core = rng.choice(['2', '3', '0.5', '4.', '10', '1234567', '0.123046875']) + '*' + rng.choice(names)
    elif r < 0.87:
        core = rng.choice(names) + rng.choice(['*', '/']) + rng.choice(['2', '4', '0.5', '8'])
    elif r < 0.90:
        # a number OVER a name: not a multiple of the name
        core = rng.choice(['2', '4', '0.5', '8', '1']) + '/' + rng.choice(names)
    else:
        # incl. numbers with more than six significant digits (all exactly representable, so sums stay exact)
        core = rng.choice(['1', '2', '2.5', '4', '0.25', '16.', '1234567', '100000.5', '0.123046875', '8388607.5',
                           '12345678.0', '0.0009765625'])
    form = rng.choice(['p', 'p', 'm', 'm', 'plus', 'b', 'mb', 'bm', 'mbm', 'pbp', 'pbm'])
    sign = 1.0
    if form == 'p':
        text = core
    elif form == 'plus':
        text = '+' + core
    elif form == 'm':
        text, sign = '-' + core, -1.0
    elif form == 'b':
        text = '(' + core + ')'
    elif form == 'mb':
        text, sign = '-(' + core + ')', -1.0
    elif form == 'bm':
        text, sign = '(-' + core + ')', -1.0
    elif form == 'mbm':
        text = '-(-' + core + ')'
    elif form == 'pbp':
        text = '+(+' + core + ')'
    else:
        text, sign = '+(-' + core + ')', -1.0
    if rng.random() < 0.3:
        # whitespace noise (documented: internal spaces do not matter)
        text = ' '.join(text) if rng.random() < 0.3 else ' ' + text.replace('*', ' * ').replace('/', ' / ') + ' '
    return text, sign, core


LEADS = ['{n}*{m}+{o}', '2*({n}-{m})', 'max({n},{m})', '{n}**2', '{n}', '-{n}', '{n}-{m}', '{n}*{m}',
         '{n}/2+{m}', '0.0', '', '({n}+{m})/4', 'abs({n}-{m})*{o}', '{n} + {m}', '1.0', '{n}*{m}/{o}',
         '-{n}*{m}', '2', 'min({n}, {m}) - {o}*{o}', '{n}(k-1)']


def gen_history(rng):
    names = rng.sample(POOL, rng.randint(1, 6))
    kind = rng.choice(['none', 'none', 'emptylist', 'blob', 'blob', 'blob', 'strrhs', 'like_term', 'one_string',
                       'one_string_comment', 'comment_in_name_with_rhs'])
    lead = None
    if kind in ('blob', 'strrhs', 'one_string', 'one_string_comment', 'comment_in_name_with_rhs'):
        t = rng.choice(LEADS[:-1])
        lead = t.format(n=rng.choice(names), m=rng.choice(names), o=rng.choice(names))
    elif kind == 'like_term':
        # a lead spelled exactly like a term that is added later
        lead = rng.choice(names) if rng.random() < 0.6 else rng.choice(names) + '*' + rng.choice(names)
    n = rng.choice([0, 1, 2, 3, 5, 8, 12, 20, 30])
    terms = [gen_term(rng, names) for _ in range(n)]
    if kind == 'like_term' and terms:
        j = rng.randrange(len(terms))
        terms[j] = (rng.choice(['', '-', '+']) + lead, None, lead)
        terms[j] = (terms[j][0], -1.0 if terms[j][0].startswith('-') else 1.0, lead)
    if rng.random() < 0.3 and terms:
        # force cancellation
        t = rng.choice(terms)
        terms.append(('-(' + t[2] + ')' if t[1] > 0 else t[2], -t[1], t[2]))
    # some terms are passed as Term objects; equal texts share ONE object (a caller re-using a Term), and some
    # terms also go into a second equation built alongside (sharing the same objects)
    # a few terms are plain numbers handed over as Python floats (with more digits than '%f' keeps)
    for _ in range(rng.choice([0, 0, 1, 2])):
        f_ = rng.choice([1.0 / 3.0, 2.0 / 7.0, 0.0123456789, 123.4567891, 0.3333334])
        terms.insert(rng.randint(0, len(terms)), (repr(f_), 1.0, repr(f_), 'as_float'))
    flags = [{'as_obj': rng.random() < 0.35 and len(t_) == 3, 'eq2': rng.random() < 0.25, 'as_float': len(t_) == 4} for t_ in terms]
    terms = [t_[:3] for t_ in terms]
    return {'lead_kind': kind, 'lead': lead, 'terms': [list(t) for t in terms], 'names': names, 'flags': flags}


def gen_termlist(rng):
    names = rng.sample(POOL, rng.randint(1, 5))
    n = rng.choice([0, 1, 1, 2, 3, 5, 9])
    out = []
    for i in range(n):
        r = rng.random()
        a, b, c = (rng.choice(names) for _ in range(3))
        if r < 0.35:
            core = a
        elif r < 0.55:
            core = a + ' * ' + b
        elif r < 0.65:
            core = '(' + a + '+' + b + ')*' + c
        elif r < 0.72:
            core = '1e+2*' + a
        elif r < 0.80:
            core = a + '*(' + b + ' + ' + c + ')'
        elif r < 0.88:
            core = '2*' + a + '/4'
        else:
            core = 'max(' + a + ', ' + b + '+1)'
        sgn = rng.choice(['', '', '+', '-', '+ ', '- ', ' +', ' -'])
        out.append(sgn + core + rng.choice(['', ' ']))
    return {'terms': out}


def _eval(src, env):
    """Exact value (a Fraction) of an expression over +, -, *, /, **, max, min, abs, names and decimal literals: neither the
    expected value nor the value of the right-hand side the library renders suffers from float cancellation."""
    import io as _io
    import tokenize as _tk
    from fractions import Fraction as _Fr
    toks = []
    for t in _tk.generate_tokens(_io.StringIO(src).readline):
        if t.type == _tk.NUMBER:
            toks.append((_tk.NAME, '_F'))
            toks.append((_tk.OP, '('))
            toks.append((_tk.STRING, repr(t.string)))
            toks.append((_tk.OP, ')'))
        else:
            toks.append((t.type, t.string))
    code = _tk.untokenize(toks)
    g = {'__builtins__': {}, 'max': max, 'min': min, 'abs': abs, '_F': lambda txt: _Fr(txt.rstrip('.') if txt.endswith('.') else txt)}
    e = {n: _Q(_Fr(v)) for n, v in env.items()}
    return _Fr(eval(code.strip(), g, e))


from fractions import Fraction as _Fraction


class _Q(_Fraction):
    def __call__(self, *a):
        return _Q(_Fraction(self) / 2)


class C12(object):
    id = 'C12'
    anchors = ('Term.__init__', 'Equation.AddTerm', 'Term.__str__', 'Equation.GetRightHandSide', 'create_equation_from_terms')
    title = 'Equation-building arithmetic preserves value'
    rule = ('cases are batches of %d histories: an Equation built with no lead / empty list / opaque (blob) '
            'lead / string rhs / a lead spelled like a later term, followed by 0-30 AddTerm calls over signed, '
            'bracketed, product/quotient and numeric terms with whitespace noise; after every call RHS() must '
            'compile and equal lead + signed sum under 3 exact valuations; plus create_equation_from_terms '
            'lists (value and caller list unchanged); distinct = hash of the history; non-trivial = >= 2 '
            'terms, or a lead plus a term; one ambient case: in-situ AddTerm wrapper during book builds' % BATCH)
    assumptions = ['leads are additive-precedence-safe expressions (no top-level comparison/conditional/bitwise '
                   'operator: probe class D13 not generated)',
                   'valuations use exactly representable values, so == is the comparison']
    required_counters = ('addterm.post_evaluated', 'termlist.judged', 'insitu.addterm.post_evaluated', 'sector.histories',
                         'sector.rhs_replaced_mid_history',
                         'addterm.unsupported_form_offered',
                         'addterm.python_float_passed',
                         'addterm.old_name_added_after_a_rename')

    def n_cases(self, tier):
        return (15 if tier == 'quick' else 1500) + 1

    def make_case(self, rng, idx, tier):
        if idx == 0:
            return {'kind': 'ambient', 'models': ['SIM', 'PC', 'REG'] if tier == 'quick' else ['SIM', 'SIMEX1', 'PC', 'REG', 'REG2'],
                    'scripts': 'fast' if tier == 'quick' else 'all'}
        return {'kind': 'batch', 'bseed': rng.getrandbits(48), 'n': BATCH}

    # -----------------------------------------------------------------------------------------
    def run_history(self, h, rng, rec):
        from sfc_models.equation import Equation, Term
        from sfc_models.utils import LogicError
        envs = []
        for _ in range(3):
            e = valuation(rng)
            envs.append(e if rng.random() < 0.5 else pow2_env(e, rng))
        # quotient divisors: make every name a power of two in valuation 0 so a/b is exact there;
        envs[0] = pow2_env(envs[0], rng)
        kind, lead = h['lead_kind'], h['lead']
        if kind == 'none':
            eq = Equation('v', 'desc')
        elif kind == 'emptylist':
            eq = Equation('v', 'desc', rhs=[])
        elif kind == 'one_string':
            eq = Equation('v = ' + lead)                       # "lhs = rhs" in the first argument
        elif kind == 'one_string_comment':
            eq = Equation('v = ' + lead + '  # a description with = and # inside')
        elif kind == 'comment_in_name_with_rhs':
            # the comment rides on the NAME argument, the right-hand side is passed separately
            eq = Equation('v # a description, no equals sign in it', rhs=lead)
        elif kind in ('blob', 'like_term'):
            eq = Equation('v', 'desc', rhs=[Term(lead, is_blob=True)])
        else:
            eq = Equation('v', 'desc', rhs=lead)
        lead_src = lead if lead not in (None, '') else '0.0'
        expected = [_eval(lead_src, e) for e in envs]
        exact = [True, '/' not in lead_src, '/' not in lead_src]
        self.judge(eq, h, expected, envs, exact, rec, -1)
        eq2 = Equation('v', 'desc')
        expected2 = [_Fraction(0) for _ in envs]
        exact2 = [True, True, True]
        objpool = {}
        flags = h.get('flags') or [{'as_obj': False, 'eq2': False}] * len(h['terms'])
        for j, (text, sign, core) in enumerate(h['terms']):
            arg = text
            if flags[j].get('as_float'):
                arg = float(text)
                rec.count('addterm.python_float_passed')
            if flags[j]['as_obj']:
                key = text.replace(' ', '')
                if key not in objpool:
                    try:
                        objpool[key] = Term(text)
                    except (LogicError, SyntaxError, NotImplementedError) as e:
                        rec.violate('addterm_refused', {'history': h, 'at': j, 'err': repr(e)})
                        return
                arg = objpool[key]
                rec.count('addterm.term_object_passed')
            try:
                eq.AddTerm(arg)
                if flags[j]['eq2']:
                    eq2.AddTerm(arg)
            except (LogicError, SyntaxError, NotImplementedError) as e:
                # the generator only produces supported forms: a refusal is a failure to add
                rec.violate('addterm_refused', {'history': h, 'at': j, 'err': repr(e)})
                return
            rec.count('addterm.calls')
            for i, e in enumerate(envs):
                tv = _Fraction(sign) * _eval(core, e)
                expected[i] = expected[i] + tv
                if '/' in core and i > 0:
                    exact[i] = False
                if flags[j]['eq2']:
                    expected2[i] = expected2[i] + tv
                    if '/' in core and i > 0:
                        exact2[i] = False
            if not self.judge(eq, h, expected, envs, exact, rec, j):
                return
            if not self.judge(eq2, h, expected2, envs, exact2, rec, j, which='second equation sharing Term objects'):
                return
        # term texts the arithmetic does not offer (a bracketed sum or difference with a sign in front, %, //): either they are
        # refused - and the equation is then still worth what it was - or they are added with their literal value
        names_ = h['names']
        a_, b_ = names_[0], names_[-1]
        for text in ('-(%s-%s)' % (a_, b_), '(%s+%s)' % (a_, b_), '-(%s+%s)' % (b_, a_), '%s %% %s' % (a_, b_), '-(%s//%s)' % (a_, b_),
                     '%s-%s' % (a_, b_)):
            try:
                eq.AddTerm(text)
                added = True
            except Exception:
                added = False
            rec.count('addterm.unsupported_form_offered')
            if added:
                for i, e in enumerate(envs):
                    try:
                        expected[i] = expected[i] + _eval(text, e)
                    except ZeroDivisionError:
                        return
            if not self.judge(eq, dict(h, unsupported_term_offered=text, it_was_added=added), expected, envs, exact, rec, len(h['terms'])):
                return

        # a name of the equation is renamed in place (as the alias clean-up does), then a term with the OLD name is added: it is a
        # different variable now and must appear as a term of its own
        import tokenize as _tk2
        n_ = names_[0]
        try:
            eq.ReplaceTokensFromLookup({n_: 'RN__' + n_})
            eq.AddTerm(n_)
        except Exception as e_:
            rec.violate('addterm_refused', {'history': h, 'after': 'renaming %s and adding it again' % n_, 'err': repr(e_)})
            return
        envs_r = [dict(e, **{'RN__' + n_: e[n_]}) for e in envs]
        expected_r = [expected[i] + _eval(n_, e) for i, e in enumerate(envs)]
        rec.count('addterm.old_name_added_after_a_rename')
        toks_ = [v_ for t_, v_ in monitors.token_stream(eq.RHS()) if t_ == _tk2.NAME]
        if n_ not in toks_:
            rec.violate('value_mismatch', {'equation': 'main', 'history': h, 'rhs': eq.RHS(),
                                           'note': 'the name %s was renamed in place, then a term %s was added: it is missing from the right-hand side' % (n_, n_)})
            return
        if not self.judge(eq, dict(h, renamed=n_), expected_r, envs_r, exact, rec, len(h['terms']) + 1):
            return
        # the same forms as the FIRST term of a fresh equation (where a leading minus is a unary minus), and added three times
        # (where a merged coefficient ends up in front of the operator)
        for text, times in (('-(%s//%s)' % (a_, b_), 1), ('-(%s %% %s)' % (a_, b_), 1), ('%s//%s' % (a_, b_), 3), ('%s %% %s' % (b_, a_), 3)):
            e3 = Equation('v', 'desc')
            exp3 = [_Fraction(0) for _ in envs]
            try:
                for _ in range(times):
                    e3.AddTerm(text)
                    for i, e in enumerate(envs):
                        exp3[i] = exp3[i] + _eval(text, e)
            except ZeroDivisionError:
                continue
            except Exception:
                continue        # refused: nothing to judge
            rec.count('addterm.unsupported_form_as_first_term_or_repeated')
            if not self.judge(e3, {'fresh_equation': True, 'term': text, 'times_added': times, 'names': h['names'], 'lead': None, 'terms': []},
                              exp3, envs, [True] * len(envs), rec, times, which='fresh equation'):
                return

    def run_sector_history(self, h, rng, rec):
        """The same histories driven through the Sector API that models use: AddVariable (leading expression),
        AddTermToEquation, and - mid-history - SetEquationRightHandSide, which gives the variable a NEW leading
        expression; terms added afterwards (including ones spelled like terms added before) must sum onto it."""
        from sfc_models.models import Model, Country
        from sfc_models.sector import Sector
        from sfc_models.utils import LogicError
        envs = [pow2_env(valuation(rng), rng)]
        for _ in range(2):
            e = valuation(rng)
            envs.append(e if rng.random() < 0.5 else pow2_env(e, rng))
        mod = Model()
        sec = Sector(Country(mod, 'C1', 'C1'), 'S', 'S', has_F=False)
        lead = h['lead'] if h['lead'] not in (None,) else ''
        sec.AddVariable('v', 'desc', lead)
        eq = sec.EquationBlock['v']
        lead_src = lead if lead != '' else '0.0'
        expected = [_eval(lead_src, e) for e in envs]
        exact = [True, '/' not in lead_src, '/' not in lead_src]
        if not self.judge(eq, h, expected, envs, exact, rec, -1, which='sector variable'):
            return
        n = len(h['terms'])
        resets = {}
        if n >= 2:
            for _ in range(rng.choice([1, 1, 2])):
                t = rng.choice(LEADS[:-1])
                resets[rng.randrange(1, n)] = t.format(n=rng.choice(h['names']), m=rng.choice(h['names']), o=rng.choice(h['names']))
        # terms after a reset repeat earlier spellings on purpose
        terms = list(h['terms'])
        for j in sorted(resets):
            if j < n and rng.random() < 0.8:
                terms[j] = terms[rng.randrange(0, j)]
        for j, (text, sign, core) in enumerate(terms):
            if j in resets:
                new = resets[j]
                sec.SetEquationRightHandSide('v', new)
                src = new if new != '' else '0.0'
                expected = [_eval(src, e) for e in envs]
                exact = [True, '/' not in src, '/' not in src]
                rec.count('sector.rhs_replaced_mid_history')
                if not self.judge(sec.EquationBlock['v'], dict(h, resets=resets), expected, envs, exact, rec, j, which='sector variable after a new leading expression'):
                    return
            try:
                sec.AddTermToEquation('v', text)
            except (LogicError, SyntaxError, NotImplementedError) as e:
                rec.violate('addterm_refused', {'history': h, 'at': j, 'err': repr(e), 'api': 'Sector.AddTermToEquation'})
                return
            rec.count('sector.addterm.calls')
            for i, e in enumerate(envs):
                expected[i] = expected[i] + _Fraction(sign) * _eval(core, e)
                if '/' in core and i > 0:
                    exact[i] = False
            if not self.judge(sec.EquationBlock['v'], dict(h, resets=resets, terms_used=[list(t) for t in terms]), expected, envs, exact, rec, j,
                              which='sector variable'):
                return
        rec.count('sector.histories')

    def judge(self, eq, h, expected, envs, exact, rec, j, which='main'):
        rhs = eq.RHS()
        try:
            compile(rhs, '<rhs>', 'eval')
        except SyntaxError as e:
            rec.violate('rhs_not_an_expression', {'history': h, 'after_term': j, 'rhs': rhs, 'err': repr(e)})
            return False
        s = str(eq)
        # the exact layout of str(Equation) is not part of the property: only that it shows this left- and right-hand side
        if not s.replace(' ', '').startswith('v=' + rhs.replace(' ', '')):
            rec.violate('str_inconsistent', {'history': h, 'after_term': j, 'rhs': rhs, 'str': s})
            return False
        for i, e in enumerate(envs):
            try:
                got = _eval(rhs, e)
            except Exception as ex:
                rec.violate('rhs_unevaluable', {'history': h, 'after_term': j, 'rhs': rhs, 'err': repr(ex)})
                return False
            exp = expected[i]
            # both sides are exact rationals; the only slack is for float arithmetic the library may do on coefficients
            ok = (got == exp) or abs(got - exp) <= _Fraction(1, 10 ** 12) * max(1, abs(exp), abs(got))
            if not ok:
                lead = h['lead']
                mech = 'value'
                rec.violate('value_mismatch', {'equation': which, 'history': h, 'after_term': j, 'rhs': rhs, 'valuation': e,
                                               'expected': float(exp), 'got': float(got)}, mechanism=mech)
                return False
        rec.count('addterm.post_evaluated')
        return True

    def run_termlist(self, t, rng, rec):
        from sfc_models.utils import create_equation_from_terms
        arg = list(t['terms'])
        saved = copy.deepcopy(arg)
        try:
            out = create_equation_from_terms(arg)
        except Exception as e:
            rec.violate('termlist_raised', {'terms': saved, 'err': repr(e)})
            return
        rec.count('termlist.judged')
        if arg != saved:
            rec.violate('termlist_argument_mutated', {'terms': saved, 'after': arg, 'result': out})
        for _ in range(2):
            e = pow2_env(valuation(rng), rng)
            exp = _Fraction(0)
            for s in saved:
                exp += _eval(s.strip(), e)
            try:
                got = _eval(out, e) if out.strip() else _Fraction(0)
            except Exception as ex:
                rec.violate('termlist_unevaluable', {'terms': saved, 'result': out, 'err': repr(ex)})
                return
            if abs(got - exp) > 1e-9 * max(1.0, abs(exp)):
                rec.violate('termlist_value', {'terms': saved, 'result': out, 'valuation': e,
                                               'expected': float(exp), 'got': float(got)})
                return

    def run_case(self, case):
        if case['kind'] == 'ambient':
            return self.run_ambient(case)
        rng = random.Random(case['bseed'])
        rec = monitors.Recorder()
        keys = []
        obs = None
        shapes = {}
        for i in range(case['n']):
            if rng.random() < 0.7:
                h = gen_history(rng)
                if i % 5 == 2:
                    self.run_sector_history(h, rng, rec)
                else:
                    self.run_history(h, rng, rec)
                if len(h['terms']) >= 2 or (h['lead'] and h['terms']):
                    keys.append(chash(h))
                shapes['lead.' + h['lead_kind']] = shapes.get('lead.' + h['lead_kind'], 0) + 1
                if obs is None and h['terms']:
                    obs = {'history': h}
            else:
                t = gen_termlist(rng)
                self.run_termlist(t, rng, rec)
                if len(t['terms']) >= 2:
                    keys.append(chash(t))
                shapes['termlist'] = shapes.get('termlist', 0) + 1
        return {'verdict': 'violated' if rec.violations else 'held', 'nontrivial': bool(keys),
                'evals': case['n'], 'keys': keys, 'shape': 'batch', 'counters': rec.counters,
                'violations': rec.violations, 'obs': obs, 'notes': shapes}

    def run_ambient(self, case):
        from vf import ambient
        rec = monitors.Recorder()
        ins = monitors.Recorder()
        undo = monitors.install_addterm_monitor(ins)
        built = []
        try:
            for name in case['models']:
                try:
                    ambient.build_book(name, max_time=3)
                    built.append(name)
                except Exception:
                    rec.count('ambient.build_failed')
            which = case.get('scripts')
            if which:
                built += ['script:' + n for n in ambient.run_scripts(
                    ambient.FAST_SCRIPTS if which == 'fast' else ambient.ALL_SCRIPTS, rec)]
        finally:
            monitors.unpatch(undo)
        for k, v in ins.counters.items():
            rec.count('insitu.' + k, v)
        rec.violations.extend(ins.violations)
        n = ins.counters.get('addterm.post_evaluated', 0)
        return {'verdict': 'violated' if rec.violations else 'held', 'nontrivial': n > 0,
                'evals': len(built), 'keys': ['ambient:' + m for m in built], 'shape': 'ambient',
                'counters': rec.counters, 'violations': rec.violations,
                'obs': {'built': built, 'insitu': ins.counters}}


PROP = C12()
