"""C10 - exogenous paths, initial conditions and horizon are honoured verbatim."""
import contextlib
import io
import random

from vf import monitors
from vf.gen import eqsys as G


def rng_choice(case, options):
    return options[(case['maxtime'] * 7 + len(case['what'])) % len(options)]


class C10(object):
    id = 'C10'
    anchors = ('EquationSolver.SetInitialConditions', 'EquationParser.ParseString', 'Model._ProcessExogenous', 'Model._GenerateInitialConditions', 'EquationSolver.SolveEquation')
    title = 'Exogenous paths, initial conditions and horizon are honoured verbatim'
    rule = ('one case = one equation block (random contraction with lags, aliases, derived variables, constants; '
            'exogenous given as list / tuple / string expression / float scalar; initial conditions on simultaneous, '
            'lagged, derived, alias and constant variables; horizon 0-60 from the MaxTime line or set on the solver '
            'before parsing) solved by the real solver, reduction on/off; by-construction expectations: every series '
            'has horizon+1 points, exogenous == first horizon+1 supplied values, stated initial condition == k=0 value, '
            'lagged[k] == source[k-1], t == k unless defined; rejection cases (too-short list, unevaluable exogenous '
            'or initial value, int scalar: rejected-or-verbatim) and model-level SIM builds with random paths, initial '
            'stocks and Model.MaxTime; distinct = hash of case; non-trivial = solved with >= 1 exogenous or initial '
            'condition, or a rejection case')
    assumptions = ['steady-state initialisation off', "initial conditions are spelled X(0) as the model emits them",
                   'a horizon assigned to the solver after ParseString is not "the horizon" (picked up on next parse)']
    required_counters = ('length.judged', 'exo.judged', 'ic.judged', 'ic.zero_valued.judged', 'model.horizon_chosen_after_exogenous_paths', 'model.declared_through_sector_objects', 'time.judged.with_variable_T_next_to_default_t', 'lag.judged', 'time.judged', 'reject.judged',
                         'model.judged', 'solver_reused.cases', 'ic_on_default_time.judged',
                         'solver_horizon_overrides_line.cases', 'horizon_assigned_after_parse.cases',
                         'exo_on_parameter.judged',
                         'flat_block_without_simultaneous_part.cases',
                         'failed_period_tried_again_on_the_same_solver.cases',
                         'model.exogenous_redeclared_through_alternating_routes',
                         'model.judged.with_flat_paths_of_many_digit_values_as_list_objects',
                         'model.two_economies_with_the_same_sector_codes.judged',
                         'same_text_read_again_after_the_horizon_was_set_on_the_solver.cases',
                         'block_with_a_reported_non_equation_line_and_the_horizon_set_on_the_solver.cases',
                         'block_with_a_trailing_remark_naming_the_marker_word_and_a_blank_line.cases')

    def n_cases(self, tier):
        return 320 if tier == 'quick' else 30000

    def make_case(self, rng, idx, tier):
        m = idx % 16
        if m == 15:
            case = self.make_model_case(rng)
            if (idx // 16) % 2 == 1:
                # FLAT paths of many-digit values handed over as list / tuple objects (spending and a parameter)
                T_ = case['maxtime']
                case['g'] = [rng.choice([20.0123456789, 1234567.875, 17.000000125])] * (T_ + 1 + rng.randint(3, 6))
                case['form'] = rng.choice(['list', 'tuple'])
                case['param_paths']['TF|TaxRate'] = [rng.choice([0.2000000123, 0.123456789])] * (T_ + 4)
                case['flat_many_digit_paths'] = True
            return case
        if m == 12 and (idx // 16) % 2 == 1:
            # two economies with the SAME sector codes in one model: what is exogenous in one has an initial condition (and stays
            # endogenous / constant) in the other
            T_ = rng.randint(2, 8)
            return {'kind': 'two_country_model', 'maxtime': T_, 'builders': [rng.choice(['SIM', 'SIMEX1']), rng.choice(['SIM', 'SIMEX1'])],
                    'gA': [float(rng.randint(5, 40)) for _ in range(T_ + 2)], 'gB': [float(rng.randint(5, 40)) for _ in range(T_ + 2)],
                    'taxA': [round(rng.uniform(0.1, 0.3), 3) for _ in range(T_ + 2)], 'tax0B': round(rng.uniform(0.31, 0.4), 3),
                    'afA': [round(rng.uniform(0.2, 0.5), 3) for _ in range(T_ + 2)], 'af0B': round(rng.uniform(0.2, 0.5), 3),
                    'fB': float(rng.randint(10, 90)), 'by_code': rng.random() < 0.5}
        if m == 12 and (idx // 16) % 2 == 0:
            from vf.gen import modelspec as M
            return {'kind': 'spec_model', 'mspec': M.gen_spec(rng, n_zones=rng.choice([1, 2]), maxtime=rng.randint(1, 6))}
        if m in (13, 14):
            kind = rng.choice(['short_list', 'bad_exo', 'bad_ic', 'int_scalar', 'short_tuple', 'bad_ic_zero_div'])
            return {'kind': 'reject', 'what': kind, 'maxtime': rng.randint(1, 12), 'reduction': rng.random() < 0.5}
        if m == 9:
            # the caller drives the periods one by one; a period that runs out of sweeps is tried again on the same solver
            # with a larger cap (possibly twice): every series still has horizon+1 points, lags stay aligned
            g0, g1 = rng.choice([5.0, 10.0]), rng.choice([40.0, 80.0])
            T_ = rng.randint(3, 8)
            s_ = rng.randint(2, T_)
            vals = [g0 + 0.001 * j for j in range(s_)] + [g1] * (T_ + 1 - s_)
            ics = {'x': 1.6 * g0, 'y': 1.2 * g0, 'w': 2.0 + 0.4 * g0}
            spec = {'simul': [{'name': 'x'}, {'name': 'y'}, {'name': 'w'}], 'lags': [{'name': 'LAG_x', 'src': 'x'}, {'name': 'LAG_g', 'src': 'g'}],
                    'exos': [{'name': 'g', 'form': 'list', 'values': vals, 'text': repr(vals)}], 'consts': [], 'aliases': [],
                    'decos': [{'name': 'd', 'expr': 'x + y'}], 'ics': ics, 'time': None, 'maxtime': T_}
            text = ('x = 0.5*y + g\ny = 0.5*x + 0.25*LAG_x\nLAG_x = x(k-1)\nLAG_g = g(k-1)\nd = x + y\nw = 0.5*w + 0.125*LAG_x + 0.01*LAG_g + 1.0\n'
                    'x(0) = %r\ny(0) = %r\nw(0) = %r\nMaxTime = %d\nErr_Tolerance = 1e-9\nexogenous\ng = %r'
                    % (ics['x'], ics['y'], ics['w'], T_, vals))
            return {'kind': 'solve', 'spec': spec, 'text': text, 'late_horizon': None, 'via': 'line',
                    'reduction': rng.random() < 0.5, 'earlier': None, 'stepwise_retry': rng.choice([1, 2]), 'shock_at': s_}
        if m == 5:
            # a "flat" block: nothing simultaneous - every variable follows from exogenous and lagged values only
            T_ = rng.choice([1, 2, 3, 8, 20])
            vals = [float(rng.randint(1, 30)) for _ in range(T_ + 1 + rng.randint(0, 3))]
            spec = {'simul': [], 'lags': [{'name': 'LAG_inc', 'src': 'inc'}],
                    'exos': [{'name': 'inc', 'form': 'list', 'values': vals, 'text': repr(vals)}], 'consts': [],
                    'aliases': [], 'decos': [{'name': 'cc', 'expr': '0.5*LAG_inc + 1.0'}, {'name': 'dd', 'expr': '2.0*LAG_inc + inc'}],
                    'ics': {'LAG_inc': G.nice(rng, 1.0, 9.0), 'cc': G.nice(rng, 1.0, 9.0)}, 'time': None, 'maxtime': T_}
            text = ('cc = 0.5*LAG_inc + 1.0\nLAG_inc = inc(k-1)\ndd = 2.0*LAG_inc + inc\n'
                    'LAG_inc(0) = %r\ncc(0) = %r\nMaxTime = %d\nErr_Tolerance = 1e-9\nexogenous\ninc = %r'
                    % (spec['ics']['LAG_inc'], spec['ics']['cc'], T_, vals))
            return {'kind': 'solve', 'spec': spec, 'text': text, 'late_horizon': None, 'via': 'line',
                    'reduction': rng.random() < 0.75, 'earlier': None, 'flat': True}
        maxtime = rng.choice([0, 1, 2, 3, 5, 8, 13, 30, 60]) if rng.random() < 0.6 else rng.randint(0, 60)
        spec = G.gen_affine(rng, maxtime=maxtime, rho=rng.choice([0.2, 0.5, 0.8]), tol=1e-9,
                            n_exo=rng.randint(0, 3), ics=False)
        # initial conditions on every class of non-exogenous variable
        cands = ([s['name'] for s in spec['simul']] + [l['name'] for l in spec['lags']] +
                 [d['name'] for d in spec['decos']] + [a['name'] for a in spec['aliases']] +
                 [c['name'] for c in spec['consts']])
        for nm in rng.sample(cands, min(len(cands), rng.randint(0, 4))):
            spec['ics'][nm] = G.nice(rng, -5.0, 20.0) if rng.random() < 0.8 else float(rng.randint(-3, 9))
        zero_ic = False
        if m in (3, 7, 11):
            # stated initial conditions of exactly zero, on a derived variable whose right-hand side is known at k=0
            # (built from constants only), on a constant, and on a simultaneous variable
            spec['consts'].append({'name': 'zc_c', 'value': 4.0})
            spec['decos'].append({'name': 'zc_report', 'expr': '3.0 + zc_c'})
            spec['ics']['zc_report'] = rng.choice([0.0, -0.0, 0.0])
            if m == 7:
                spec['consts'].append({'name': 'zc_d', 'value': 2.5})
                spec['ics']['zc_d'] = 0.0
            if m == 11:
                spec['ics'][spec['simul'][0]['name']] = 0.0
            zero_ic = True
        if m in (2, 6, 10) and spec['time'] is None:
            # ordinary variables named like the reserved ones up to letter case (T = taxes): the default time axis is
            # still supplied and equals k
            have = set(G.all_value_names(spec) + [d['name'] for d in spec['decos']])
            for nm, val in (('T', 12.5), ('K', 2.0), ('maxtime', 3.0)):
                if nm not in have:
                    spec['consts'].append({'name': nm, 'value': val})
            spec['case_variant_names'] = True
        via = rng.choice(['line', 'line', 'solver', 'solver_override'])
        if m == 8:
            via = 'solver_override'       # ... and the same text has already been read once by this solver (see the run)
        if m == 4:
            via = rng.choice(['solver', 'solver_override'])     # ... and the block carries a heading line that is not an equation
        if spec['time'] is None and rng.random() < 0.3:
            spec['ics']['t'] = rng.choice([1990.0, 2000.0, -1.0, 0.5])     # initial condition on the DEFAULT time axis
        text = G.render(spec, with_params=(via == 'line'))
        if via == 'solver_override':
            # the block states another horizon; the one set on the solver before parsing wins (as Model does it)
            other = dict(spec, maxtime=maxtime + rng.choice([3, 7, 40]))
            for e in other['exos']:
                pass
            text = G.render(dict(spec, tol=1e-9), with_params=False) + '\nMaxTime = %d\nErr_Tolerance = 1e-9' % other['maxtime']
        late = None
        if via == 'line' and maxtime >= 2 and rng.random() < 0.25:
            late = rng.randint(0, maxtime - 1)
        if m == 4:
            text = rng.choice(['Income block', '-- pasted from the appendix --', 'Model 3.1']) + '\n' + text
        if m == 1:
            # the first equation carries a trailing remark that mentions the word exogenous, a blank line follows; everything after it
            # (initial conditions included) still belongs to the part of the block it is written in
            text = 'zz_note = 1.5   # exogenous in the book, endogenous here\n\n' + text
        case = {'kind': 'solve', 'spec': spec, 'text': text, 'late_horizon': late, 'same_text_read_before_the_horizon_is_set': m == 8,
                'heading_line_with_horizon_on_solver': m == 4, 'remark_with_marker_word_then_blank_line': m == 1,
                'via': via, 'reduction': (rng.random() < 0.5) or (zero_ic and m != 11), 'earlier': None, 'zero_ic': zero_ic}
        if via == 'line' and rng.random() < 0.35:
            # the same solver object has already parsed and solved another block with another horizon
            other = G.gen_affine(rng, n_simul=rng.randint(1, 3), rho=0.3, tol=1e-9, maxtime=rng.choice([0, 1, 2, 3, 7, 20]))
            case['earlier'] = G.render(other)
        return case

    def make_model_case(self, rng):
        T = rng.randint(1, 25)
        form = rng.choice(['list', 'tuple', 'str', 'str_expr'])
        g = [float(rng.randint(0, 40)) for _ in range(T + 1 + rng.randint(0, 5))]
        n = T + 1 + rng.randint(0, 3)
        params = {}
        if rng.random() < 0.5:
            params['HH|AlphaIncome'] = [round(rng.uniform(0.5, 0.8), 3) for _ in range(n)]
        if rng.random() < 0.5:
            params['TF|TaxRate'] = [round(rng.uniform(0.1, 0.3), 3) for _ in range(n)]
        if rng.random() < 0.3:
            params['HH|AlphaFin'] = [round(rng.uniform(0.2, 0.5), 3) for _ in range(n)]
        return {'kind': 'model', 'maxtime': T, 'form': form, 'g': g, 'param_paths': params,
                # when the horizon is chosen: before the exogenous paths are supplied, afterwards (the model held a
                # shorter horizon while they were supplied), or afterwards directly on the solver
                'horizon_set': rng.choice(['before', 'after', 'after', 'solver_after']),
                'ics': {'HH|F': G.nice(rng, 0, 50), 'GOV|F': -G.nice(rng, 0, 50)} if rng.random() < 0.6 else {},
                'ic_aftertax': G.nice(rng, 0, 30) if rng.random() < 0.5 else None,
                'builder': rng.choice(['SIM', 'SIMEX1'])}

    # ------------------------------------------------------------------------------------------
    def run_two_country_model(self, case):
        from vf import ambient
        from sfc_models.models import Model
        rec = monitors.Recorder()
        T = case['maxtime']
        big = Model()
        bA = ambient.book_builders()[case['builders'][0]](country_code='A', model=big, use_book_exogenous=False)
        bA.build_model()
        bB = ambient.book_builders()[case['builders'][1]](country_code='B', model=big, use_book_exogenous=False)
        bB.build_model()
        cA, cB = bA.Country, bB.Country
        cA['GOV'].SetExogenous('DEM_GOOD', list(case['gA']))
        cB['GOV'].SetExogenous('DEM_GOOD', list(case['gB']))
        if case['by_code']:
            big.AddExogenous('A_TF', 'TaxRate', list(case['taxA']))
            big.AddExogenous('A_HH', 'AlphaFin', list(case['afA']))
            big._GenerateFullSectorCodes()
            big.AddInitialCondition('B_TF', 'TaxRate', case['tax0B'])
            big.AddInitialCondition('B_HH', 'AlphaFin', case['af0B'])
            big.AddInitialCondition('B_HH', 'F', case['fB'])
        else:
            cA['TF'].SetExogenous('TaxRate', list(case['taxA']))
            cA['HH'].SetExogenous('AlphaFin', list(case['afA']))
            cB['TF'].AddInitialCondition('TaxRate', case['tax0B'])
            cB['HH'].AddInitialCondition('AlphaFin', case['af0B'])
            cB['HH'].AddInitialCondition('F', case['fB'])
        big.MaxTime = T
        big.EquationSolver.MaxIterations = 3000
        try:
            with contextlib.redirect_stdout(io.StringIO()):
                big.main()
        except Exception as e:
            return {'verdict': 'notjudged', 'shape': 'two_country_model|' + type(e).__name__, 'obs': {'err': repr(e)[:200]}}
        V = big.EquationSolver.TimeSeries
        rec.count('model.judged')
        rec.count('model.two_economies_with_the_same_sector_codes.judged')
        for n, v in V.items():
            rec.count('length.judged')
            if len(v) != T + 1:
                rec.violate('series_length_not_horizon_plus_one', {'var': n, 'len': len(v), 'horizon': T})
                break
        for name, supplied in (('A_GOV__DEM_GOOD', case['gA']), ('B_GOV__DEM_GOOD', case['gB']), ('A_TF__TaxRate', case['taxA']),
                               ('A_HH__AlphaFin', case['afA'])):
            rec.count('exo.judged')
            if name not in V or list(V[name]) != [float(x) for x in supplied[:T + 1]]:
                rec.violate('exogenous_not_verbatim', {'var': name, 'got': list(V.get(name, []))[:8], 'expected': supplied[:8]})
        for name, stated in (('B_TF__TaxRate', case['tax0B']), ('B_HH__AlphaFin', case['af0B']), ('B_HH__F', case['fB'])):
            rec.count('ic.judged')
            if name not in V or V[name][0] != float(stated):
                rec.violate('initial_condition_not_k0_value', {'var': name, 'stated': stated, 'got': (V.get(name) or [None])[0],
                                                               'note': 'the same local variable of the same-coded sector in the other country is exogenous'})
        return {'verdict': 'violated' if rec.violations else 'held', 'nontrivial': True, 'shape': 'two_country_model',
                'counters': rec.counters, 'violations': rec.violations[:4], 'obs': {'T': T, 'builders': case['builders']}}

    def run_spec_model(self, case):
        """A generated model: every exogenous path the spec supplies (spending, interest and exchange rates) and every
        initial stock must come back verbatim, every series must have horizon+1 points."""
        from vf.gen import modelspec as M
        rec = monitors.Recorder()
        spec = case['mspec']
        b = M.build(spec)
        if b.error is not None:
            return {'verdict': 'notjudged', 'shape': 'spec_model|' + type(b.error).__name__}
        T = spec['maxtime']
        V = b.V
        rec.count('model.judged')
        for n, v in V.items():
            rec.count('length.judged')
            if len(v) != T + 1:
                rec.violate('series_length_not_horizon_plus_one', {'var': n, 'len': len(v), 'horizon': T})
                break
        ext = b.model.ExternalSector
        for z in spec['zones']:
            gkey, grole = b.gov_of[z['cur']]
            gov = b.sectors[(gkey, grole)]
            checks = []
            if z['xr'] is not None and ext is not None:
                checks.append((ext['XR'].GetVariableName(z['cur']), z['xr']))
            if z['gov']['deposits'] and z['gov']['r'] is not None:
                checks.append((b.sectors[(gkey, 'DEP')].GetVariableName('r'), z['gov']['r']))
            for c in z['countries']:
                if c['role'] == 'central':
                    continue
                good = b.sectors[(c['key'], 'GOOD')]
                local = 'DEM_' + (good.Code if c['role'] == 'single' else good.FullCode)
                checks.append((gov.GetVariableName(local), c['G']))
                if c['hh']['F0'] is not None:
                    rec.count('ic.judged')
                    name = b.sectors[(c['key'], 'HH')].GetVariableName('F')
                    if V[name][0] != float(c['hh']['F0']):
                        rec.violate('initial_condition_not_k0_value', {'var': name, 'stated': c['hh']['F0'],
                                                                       'got': V[name][0]})
            for name, supplied in checks:
                rec.count('exo.judged')
                if name not in V or list(V[name]) != [float(x) for x in supplied[:T + 1]]:
                    rec.violate('exogenous_not_verbatim', {'var': name, 'got': list(V.get(name, []))[:8],
                                                           'expected': supplied[:8]})
        rec.count('time.judged')
        if list(V['t'])[1:] != [float(i) for i in range(1, T + 1)]:
            rec.violate('time_axis_not_k', {'got': list(V['t'])[:8]})
        for key, sec in b.sectors.items():
            if sec.HasF:
                f, lf = sec.GetVariableName('F'), sec.GetVariableName('LAG_F')
                for k in range(1, T + 1):
                    rec.count('lag.judged')
                    if V[lf][k] != V[f][k - 1]:
                        rec.violate('lag_not_previous_value', {'var': lf, 'k': k})
                        break
        return {'verdict': 'violated' if rec.violations else 'held', 'nontrivial': True,
                'shape': 'spec_model|' + M.shape_of(spec), 'counters': rec.counters, 'violations': rec.violations[:4],
                'obs': {'maxtime': T, 'n_series': len(V)}}

    def run_case(self, case):
        if case['kind'] == 'spec_model':
            return self.run_spec_model(case)
        if case['kind'] == 'two_country_model':
            return self.run_two_country_model(case)
        if case['kind'] == 'reject':
            return self.run_reject(case)
        if case['kind'] == 'model':
            return self.run_model(case)
        from sfc_models.equation_solver import EquationSolver
        rec = monitors.Recorder()
        spec = case['spec']
        T = spec['maxtime']
        solver = EquationSolver(run_equation_reduction=case['reduction'])
        solver.MaxIterations = 4000
        if case.get('same_text_read_before_the_horizon_is_set'):
            # the block is read (and, if its own horizon can be served, solved) first; THEN the caller sets the horizon on the
            # solver and reads the same text again
            try:
                with contextlib.redirect_stdout(io.StringIO()):
                    solver.ParseString(case['text'])
                    if T % 2:
                        solver.SolveEquation()
            except ValueError:
                pass
            rec.count('same_text_read_again_after_the_horizon_was_set_on_the_solver.cases')
        if case.get('remark_with_marker_word_then_blank_line'):
            rec.count('block_with_a_trailing_remark_naming_the_marker_word_and_a_blank_line.cases')
        if case.get('heading_line_with_horizon_on_solver'):
            rec.count('block_with_a_reported_non_equation_line_and_the_horizon_set_on_the_solver.cases')
        if case['via'] in ('solver', 'solver_override'):
            solver.MaxTime = T
            solver.ParameterErrorTolerance = 1e-9
            if case['via'] == 'solver_override':
                rec.count('solver_horizon_overrides_line.cases')
        if case.get('earlier'):
            try:
                with contextlib.redirect_stdout(io.StringIO()):
                    solver.ParseString(case['earlier'])
                    solver.SolveEquation()
            except ValueError:
                pass
            rec.count('solver_reused.cases')
        late = case.get('late_horizon')
        if case.get('stepwise_retry'):
            from sfc_models.equation_solver import ConvergenceError as _CE
            retried = 0
            try:
                with contextlib.redirect_stdout(io.StringIO()):
                    solver.ParseString(case['text'])
                    solver.ExtractVariableList()
                    solver.SetInitialConditions()
                    for step_ in range(1, T + 1):
                        solver.MaxIterations = 4000 if step_ != case['shock_at'] else 6
                        attempts = 0
                        while True:
                            try:
                                solver.SolveStep(step_)
                                break
                            except _CE:
                                attempts += 1
                                retried += 1
                                # first retry with a cap that is still too small (when two retries are asked for)
                                solver.MaxIterations = 8 if attempts < case['stepwise_retry'] else 4000
            except Exception as e:
                rec.violate('well_formed_block_fails', {'err': repr(e)[:300], 'text': case['text'], 'stepwise_retry': True})
                return {'verdict': 'violated', 'shape': 'solve|stepwise_retry', 'counters': rec.counters, 'violations': rec.violations}
            if retried:
                rec.count('failed_period_tried_again_on_the_same_solver.cases')
            self.judge_series(rec, solver.TimeSeries, spec, T, case)
            return {'verdict': 'violated' if rec.violations else 'held', 'nontrivial': retried > 0,
                    'shape': 'solve|stepwise_retry', 'counters': rec.counters, 'violations': rec.violations,
                    'obs': {'maxtime': T, 'retries': retried}}
        try:
            with contextlib.redirect_stdout(io.StringIO()):
                solver.ParseString(case['text'])
                if late is not None:
                    solver.MaxTime = late      # assigned AFTER parsing: whatever it means, the result must be coherent
                solver.SolveEquation()
        except ValueError as e:
            if type(e).__name__ == 'ConvergenceError':
                return {'verdict': 'notjudged', 'shape': 'solve|' + type(e).__name__, 'obs': {'err': str(e)[:200]}}
            # every generated block is well formed: sufficient exogenous paths, evaluable initial values, a horizon
            rec.violate('well_formed_block_rejected', {'err': repr(e)[:300], 'text': case['text'][:1500],
                                                       'after_earlier_block': bool(case.get('earlier'))})
            return {'verdict': 'violated', 'shape': 'solve', 'counters': rec.counters, 'violations': rec.violations}
        except (NameError, KeyError, AssertionError, IndexError) as e:
            rec.violate('well_formed_block_fails', {'err': repr(e)[:300], 'text': case['text'],
                                                    'after_earlier_block': bool(case.get('earlier'))})
            return {'verdict': 'violated', 'shape': 'solve', 'counters': rec.counters, 'violations': rec.violations}
        ts = solver.TimeSeries
        if late is not None:
            rec.count('horizon_assigned_after_parse.cases')
            lens = set(len(v) for v in ts.values())
            if len(lens) != 1 or (lens.pop() - 1) not in (T, late):
                rec.violate('series_lengths_incoherent', {'lengths': {n: len(v) for n, v in list(ts.items())[:8]},
                                                          'block_horizon': T, 'assigned_after_parse': late})
                return {'verdict': 'violated', 'shape': 'solve|late_horizon', 'counters': rec.counters,
                        'violations': rec.violations}
            T = len(ts['k']) - 1
        if case.get('flat'):
            rec.count('flat_block_without_simultaneous_part.cases')
        self.judge_series(rec, ts, spec, T, case)
        nontrivial = bool(spec['exos'] or spec['ics'])
        return {'verdict': 'violated' if rec.violations else 'held', 'nontrivial': nontrivial,
                'shape': 'solve|T=%s|%s' % ('0' if T == 0 else ('1-5' if T <= 5 else '6+'), case['via']),
                'counters': rec.counters, 'violations': rec.violations,
                'obs': {'maxtime': T, 'ics': spec['ics'], 'exo_forms': [e['form'] for e in spec['exos']],
                        'n_series': len(ts)}}

    def judge_series(self, rec, ts, spec, T, case):
        expected_names = set(G.all_value_names(spec) + [d['name'] for d in spec['decos']] + ['k', 't'])
        if case.get('remark_with_marker_word_then_blank_line'):
            expected_names.add('zz_note')
            if list(ts.get('zz_note', []))[1:] != [1.5] * T:
                rec.violate('constant_not_its_value', {'var': 'zz_note', 'got': list(ts.get('zz_note', []))[:6]})
        if set(ts.keys()) != expected_names:
            rec.violate('series_set_wrong', {'missing': sorted(expected_names - set(ts.keys())),
                                             'extra': sorted(set(ts.keys()) - expected_names)})
            return
        for n, v in ts.items():
            rec.count('length.judged')
            if len(v) != T + 1:
                rec.violate('series_length_not_horizon_plus_one', {'var': n, 'len': len(v), 'horizon': T,
                                                                   'via': case.get('via')})
                return
        for e in spec['exos']:
            rec.count('exo.judged')
            exp = list(e['values'][:T + 1])
            if list(ts[e['name']]) != exp:
                rec.violate('exogenous_not_verbatim', {'var': e['name'], 'form': e['form'], 'got': list(ts[e['name']])[:8],
                                                       'expected': exp[:8]})
        for n, v in spec['ics'].items():
            rec.count('ic.judged')
            if v == 0.0:
                rec.count('ic.zero_valued.judged')
            if not (ts[n][0] == v):
                rec.violate('initial_condition_not_k0_value', {'var': n, 'stated': v, 'got': ts[n][0],
                                                               'reduction': case.get('reduction')})
        for l in spec['lags']:
            for k in range(1, T + 1):
                rec.count('lag.judged')
                if not (ts[l['name']][k] == ts[l['src']][k - 1]):
                    rec.violate('lag_not_previous_value', {'var': l['name'], 'k': k, 'got': ts[l['name']][k],
                                                           'source_prev': ts[l['src']][k - 1]})
                    break
        rec.count('time.judged')
        if spec.get('case_variant_names'):
            rec.count('time.judged.with_variable_T_next_to_default_t')
        if list(ts['k']) != [float(i) for i in range(T + 1)]:
            rec.violate('k_axis_wrong', {'got': list(ts['k'])[:8]})
        if spec['time'] is None:
            if list(ts['t'])[1:] != [float(i) for i in range(1, T + 1)]:
                rec.violate('time_axis_not_k', {'got': list(ts['t'])[:8], 'initial_condition_on_t': spec['ics'].get('t')})
            if 't' in spec['ics']:
                rec.count('ic_on_default_time.judged')
        else:
            for k in range(1, T + 1):
                exp = G.ev(spec['time']['expr'], {'k': float(k)})
                if ts['t'][k] != exp:
                    rec.violate('user_time_axis_wrong', {'k': k, 'got': ts['t'][k], 'expected': exp})
                    break

    def run_reject(self, case):
        from sfc_models.equation_solver import EquationSolver
        rec = monitors.Recorder()
        T = case['maxtime']
        what = case['what']
        base = 'x = 0.5*x + G + 1\nLAG_x = x(k-1)\n%s\nMaxTime = %d\nexogenous\n%s'
        ic, exo = '', 'G = [1.0]*%d' % (T + 1)
        if what == 'short_list':
            exo = 'G = ' + repr([2.0] * T)
        elif what == 'short_tuple':
            exo = 'G = ' + repr(tuple([2.0] * T))
            if T == 1:
                exo = 'G = (2.0,)'
        elif what == 'bad_exo':
            exo = rng_choice(case, ['G = [1.0, 2.0', 'G = [1.0, undefined_name]*40', 'G = 1.0/0', 'G = sqrt(-1.0)'])
        elif what == 'bad_ic':
            ic = 'x(0) = not_a_number_at_all'
        elif what == 'bad_ic_zero_div':
            ic = 'x(0) = 1/0'
        elif what == 'int_scalar':
            exo = 'G = 3'
        text = base % (ic, T, exo)
        solver = EquationSolver(run_equation_reduction=case['reduction'])
        outcome = 'returned'
        try:
            with contextlib.redirect_stdout(io.StringIO()):
                solver.ParseString(text)
                solver.SolveEquation()
        except ValueError as e:
            outcome = 'ValueError'
        except Exception as e:
            outcome = type(e).__name__
        rec.count('reject.judged')
        if what == 'int_scalar':
            ok = outcome in ('ValueError', 'TypeError') or (
                outcome == 'returned' and list(solver.TimeSeries['G']) == [3.0] * (T + 1))
            if not ok:
                rec.violate('int_scalar_silently_different', {'outcome': outcome,
                                                              'G': list(solver.TimeSeries.get('G', []))[:6]})
        elif outcome == 'returned':   # any exception is a rejection ('rejected with an error')
            rec.violate('invalid_input_not_rejected', {'what': what, 'outcome': outcome, 'text': text})
        return {'verdict': 'violated' if rec.violations else 'held', 'nontrivial': True, 'shape': 'reject|' + what,
                'counters': rec.counters, 'violations': rec.violations, 'obs': {'what': what, 'outcome': outcome}}

    def run_model(self, case):
        from vf import ambient
        rec = monitors.Recorder()
        cls = ambient.book_builders()[case['builder']]
        b = cls(country_code='C1', use_book_exogenous=False)
        mod = b.build_model()
        T = case['maxtime']
        hs = case.get('horizon_set', 'before')
        mod.MaxTime = T if hs == 'before' else min(1, T)
        g = case['g']
        val = {'list': list(g), 'tuple': tuple(g), 'str': repr(g),
               'str_expr': '[%r]*%d + %r' % (g[0], 1, g[1:])}[case['form']]
        if case['form'] == 'str_expr':
            pass
        via_sector = (len(g) + T) % 2 == 1      # the same declarations through the sector objects instead of the model
        cty = b.Country

        def add_exo(sec, var, value):
            if via_sector:
                cty[sec].SetExogenous(var, value)
            else:
                mod.AddExogenous(sec, var, value)

        def add_ic(sec, var, value):
            if via_sector:
                cty[sec].AddInitialCondition(var, value)
            else:
                mod.AddInitialCondition(sec, var, value)
        if via_sector:
            rec.count('model.declared_through_sector_objects')
        if (len(g) + 2 * T) % 3 == 0:
            # the same variable declared exogenous several times, through the model by sector code AND through the sector
            # object in alternation: the declaration made last is the one that counts
            # (a name is requested before the full codes exist, so the model has a temporary name to clean up at build time)
            cty['HH'].AddVariable('WATCH', 'a reporting variable that names another sector', cty['GOV'].GetVariableName('DEM_GOOD'))
            junk1 = [g_ + 7.0 for g_ in g]
            junk2 = [g_ * 0.5 + 1.0 for g_ in g]
            mod.AddExogenous('GOV', 'DEM_GOOD', junk1)
            cty['GOV'].SetExogenous('DEM_GOOD', junk2)
            if T % 2:
                mod.AddExogenous('GOV', 'DEM_GOOD', junk1)
            rec.count('model.exogenous_redeclared_through_alternating_routes')
            if via_sector and T % 2 == 0:
                # make sure the LAST declaration alternates with the one before it
                mod.AddExogenous('GOV', 'DEM_GOOD', junk1)
        add_exo('GOV', 'DEM_GOOD', val)
        for key, pth in case.get('param_paths', {}).items():
            sec, var = key.split('|')
            add_exo(sec, var, list(pth))     # a parameter given as a time-varying exogenous path
        for key, v in case['ics'].items():
            sec, var = key.split('|')
            add_ic(sec, var, v)
        if case['ic_aftertax'] is not None:
            add_ic('HH', 'AfterTax', case['ic_aftertax'])
        mod.EquationSolver.MaxIterations = 2000
        if hs == 'after':
            mod.MaxTime = T
        elif hs == 'solver_after':
            mod.EquationSolver.MaxTime = T
        if hs != 'before':
            rec.count('model.horizon_chosen_after_exogenous_paths')
        try:
            with contextlib.redirect_stdout(io.StringIO()):
                mod.main()
        except ValueError as e:
            if 'xogenous' in str(e):
                # every supplied path has at least horizon+1 values and is a plain list/tuple/literal
                rec.violate('sufficient_exogenous_path_rejected', {'err': str(e)[:200], 'horizon': T, 'horizon_set': hs,
                                                                   'supplied_values': len(g), 'form': case['form']})
                return {'verdict': 'violated', 'shape': 'model', 'counters': rec.counters, 'violations': rec.violations}
            return {'verdict': 'notjudged', 'shape': 'model|' + type(e).__name__, 'obs': {'err': repr(e)[:200]}}
        except Exception as e:
            return {'verdict': 'notjudged', 'shape': 'model|' + type(e).__name__, 'obs': {'err': repr(e)[:200]}}
        ts = mod.EquationSolver.TimeSeries
        rec.count('model.judged')
        if case.get('flat_many_digit_paths'):
            rec.count('model.judged.with_flat_paths_of_many_digit_values_as_list_objects')
        for n, v in ts.items():
            rec.count('length.judged')
            if len(v) != T + 1:
                rec.violate('series_length_not_horizon_plus_one', {'var': n, 'len': len(v), 'horizon': T,
                                                                   'via': 'Model.MaxTime'})
                break
        rec.count('exo.judged')
        if list(ts['GOV__DEM_GOOD']) != g[:T + 1]:
            rec.violate('exogenous_not_verbatim', {'var': 'GOV__DEM_GOOD', 'form': case['form'],
                                                   'got': list(ts['GOV__DEM_GOOD'])[:8], 'expected': g[:8]})
        for key, pth in case.get('param_paths', {}).items():
            sec, var = key.split('|')
            rec.count('exo.judged')
            rec.count('exo_on_parameter.judged')
            if list(ts[sec + '__' + var]) != [float(x) for x in pth[:T + 1]]:
                rec.violate('exogenous_not_verbatim', {'var': key, 'got': list(ts[sec + '__' + var])[:6],
                                                       'expected': pth[:6], 'note': 'parameter supplied as exogenous path'})
        for key, v in case['ics'].items():
            sec, var = key.split('|')
            rec.count('ic.judged')
            if ts[sec + '__' + var][0] != float(v):
                rec.violate('initial_condition_not_k0_value', {'var': key, 'stated': v, 'got': ts[sec + '__' + var][0]})
        if case['ic_aftertax'] is not None:
            rec.count('ic.judged')
            if ts['HH__AfterTax'][0] != float(case['ic_aftertax']):
                rec.violate('initial_condition_not_k0_value', {'var': 'HH|AfterTax', 'stated': case['ic_aftertax'],
                                                               'got': ts['HH__AfterTax'][0]})
        for k in range(1, T + 1):
            rec.count('lag.judged')
            if ts['HH__LAG_F'][k] != ts['HH__F'][k - 1]:
                rec.violate('lag_not_previous_value', {'var': 'HH__LAG_F', 'k': k})
                break
        if list(ts['t'])[1:] != [float(i) for i in range(1, T + 1)]:
            rec.violate('time_axis_not_k', {'got': list(ts['t'])[:8]})
        return {'verdict': 'violated' if rec.violations else 'held', 'nontrivial': True, 'shape': 'model|' + case['form'],
                'counters': rec.counters, 'violations': rec.violations,
                'obs': {'maxtime': T, 'form': case['form'], 'G': list(ts['GOV__DEM_GOOD'])[:5]}}


PROP = C10()
