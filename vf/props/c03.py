"""C03 - equation reduction never changes any solution value (differential execution)."""
import contextlib
import io

from vf import monitors
from vf.gen import eqsys as G


class C03(object):
    id = 'C03'
    anchors = ('EquationParser.EquationReduction', 'EquationParser.FindExactMatches', 'EquationParser.MoveDecorative', 'EquationSolver._SolveStep')
    title = 'Equation reduction never changes any solution value'
    rule = ('one case = one equation system solved twice by the real solver, run_equation_reduction True and False; '
            'systems have alias chains (length <= 4, both declaration orders, aliases of simultaneous, lagged, exogenous '
            'and constant variables, aliases used inside equations), derived chains/trees, prefix-overlapping names, '
            'initial conditions on any class of variable; class acyclic (depth <= 9: both runs reach the exact fixed '
            'point before damping starts) must agree to 1e-12 relative for every variable and every k >= 0, class '
            'cyclic (contraction <= 0.5, tol 1e-13) to 1e-8*scale; same key set; distinct = hash of the system; '
            'non-trivial = the system has >= 1 alias or derived variable and both runs solved')
    assumptions = ['a ConvergenceError on either side makes the pair inconclusive (reduction legitimately changes '
                   'conditioning); any other exception on exactly one side is a violation',
                   'cyclic class: agreement bound 1e-8*max(1,|v|) with both runs at tolerance 1e-13']
    required_counters = ('pairs.compared', 'values.compared', 'alias.pairs', 'ic_on_alias.pairs', 'model_text.pairs', 'after_earlier_parse.pairs', 'hygiene_names.pairs', 'traced_step.pairs', 'steady_search_accepted.pairs',
                         'user_functions_in_derived_variables.pairs', 'aliases_of_sources_that_are_zero_at_k0.pairs', 'after_variant_with_same_names.pairs',
                         'number_shapes.pairs')

    def n_cases(self, tier):
        return 300 if tier == 'quick' else 30000

    def make_case(self, rng, idx, tier):
        if idx % 30 == 29:
            from vf.gen import modelspec as M
            return {'kind': 'model_text', 'mspec': M.gen_spec(rng, n_zones=rng.choice([1, 2]), maxtime=3)}
        cyclic = rng.random() < 0.4
        spec = G.gen_affine(rng, n_simul=rng.randint(1, 5), cyclic=cyclic, rho=rng.choice([0.1, 0.3, 0.5]),
                            maxtime=rng.randint(1, 10), tol=1e-13, aliases=False, decos=False, ics=False)
        if rng.random() < 0.9:
            G.add_aliases(rng, spec)
        if rng.random() < 0.8:
            G.add_decos(rng, spec)
        if rng.random() < 0.6:
            G.add_ics(rng, spec)
        if rng.random() < 0.3 and spec['aliases']:
            a = rng.choice(spec['aliases'])
            spec['ics'][a['name']] = G.nice(rng, 1.0, 9.0)
        if idx % 10 in (1, 6):
            # sources that are exactly ZERO at k=0 (a constant 0.0, an exogenous path starting at 0.0, a zero initial
            # condition) reached through aliases that are declared AFTER the variables that use them
            vals = [0.0] + [float(j + 1) * 2.5 for j in range(spec['maxtime'] + 2)]
            spec['exos'].append({'name': 'zz_g', 'form': 'list', 'values': vals, 'text': repr(vals)})
            spec['consts'].append({'name': 'zz_c0', 'value': 0.0})
            spec['decos'].append({'name': 'zz_w', 'expr': 'zz_a + 5.0'})
            spec['decos'].append({'name': 'zz_v', 'expr': 'zz_b2 - 3.0'})
            spec['aliases'] += [{'name': 'zz_a', 'target': 'zz_g'}, {'name': 'zz_b2', 'target': 'zz_b1'},
                                {'name': 'zz_b1', 'target': 'zz_c0'}]
            spec['zero_sources'] = True
        if rng.random() < 0.3:
            # alias of the (default or user) time axis
            nm = G.fresh_names(rng, 1, avoid=G.all_value_names(spec) + [d['name'] for d in spec['decos']])[0]
            spec['aliases'].append({'name': nm, 'target': 't'})
        if idx % 10 == 0:
            # number shapes: an exogenous path written with integer entries behind an alias (and a lag of the alias)
            ints = [20, 20, 25] + [25 + j for j in range(spec['maxtime'] + 1)]
            spec['exos'].append({'name': 'ns_g', 'form': 'list', 'values': ints, 'text': repr(ints)})
            spec['aliases'].append({'name': 'ns_G', 'target': 'ns_g'})
        case = {'kind': 'pair', 'spec': spec, 'text': G.render(spec), 'cyclic': cyclic, 'first': None}
        if idx % 10 == 0:
            # ... integer constants nothing refers to, negative constants raised to a power, numbers written .5, 5., 1E-3, +3
            case['text'] = ('ns_prev = ns_G(k-1)\nns_use = 0.5*ns_prev + ns_G\nns_five = 5\nns_n = -3\nns_neg = -1.5\n'
                            'ns_sq = ns_neg**2\nns_cube = ns_n**3 + ns_sq\nns_a = .5\nns_b = 5.\nns_c = 1E-3\nns_d = +3\n'
                            'ns_mix = ns_a*ns_b + ns_c**2 - ns_d**2 + ns_n**2\nns_flag = ns_n > -5\nns_gate = (ns_b >= 5)*ns_a\n'
                            # a mirror image of another variable, used as the base of a power, in a product and under a unary minus
                            'ns_mir = -ns_use\nns_pen = 0.125*ns_mir**2 - ns_mir + 2*-ns_mir\nns_mir2 = - ns_prev\nns_q = ns_mir2**3/(1 + ns_mir2**2)\n') + case['text']
            case['number_shapes'] = True
        if rng.random() < 0.2:
            # an alias whose NAME looks like a number suffix, used next to literals spelled with a bare dot
            # ('2.e5*e5'): substitution must respect token boundaries, not word boundaries
            nm = rng.choice(['e5', 'E3', 'e1', 'e10', 'E2'])
            tgt = spec['simul'][0]['name']
            lit = {'e5': '2.e5', 'E3': '1.E3', 'e1': '4.e1', 'e10': '1.e10', 'E2': '3.E2'}[nm]
            extra = ['%s = %s' % (nm, tgt), 'hyg_w = %s*%s + %s' % (lit, nm, lit),
                     'hyg_s = %s + 0*%s' % (nm, nm)]
            if rng.random() < 0.5:
                extra.append('%s(0) = 0.0' % 'hyg_w')
            case['text'] = '\n'.join(extra) + '\n' + case['text']
            case['hygiene'] = nm
        if idx % 10 in (2, 5):
            # user-defined functions (AddFunction) called by variables nothing else depends on; one of them is named
            # like a math function and must win over it in every equation, reduced away or not
            x = spec['simul'][0]['name']
            case['text'] = 'ufd_a = half(%s) + 1.0\nufd_b = log(%s) - half(ufd_c)\nufd_c = 0.25*%s\n' % (x, x, x) + case['text']
            case['funcs'] = True
        if idx % 10 in (4, 9):
            # the solvers first solve a VARIANT of the system: same names, other definitions of aliases' targets,
            # derived variables and constants
            import copy as _copy
            var = _copy.deepcopy(spec)
            for sm in var['simul']:
                sm['const'] = sm['const'] * 0.5 + 1.0
            for cst in var['consts']:
                cst['value'] = cst['value'] + 1.0
            for dd in var['decos']:
                dd['expr'] = '2.0*(' + dd['expr'] + ') + 1.0'
            pool = [s_['name'] for s_ in var['simul']]
            for al in var['aliases']:
                if al['target'] in pool and len(pool) > 1:
                    al['target'] = pool[(pool.index(al['target']) + 1) % len(pool)]
            try:
                case['first'] = G.render(var)
                case['first_is_variant'] = True
            except Exception:
                pass
        elif rng.random() < 0.3:
            # the solvers have already read something else (or the same text) before they are given the system
            if rng.random() < 0.5:
                case['first'] = case['text']
            else:
                other = G.gen_affine(rng, n_simul=rng.randint(1, 3), rho=0.3, maxtime=2, tol=1e-9)
                case['first'] = G.render(other)
        # solver options that touch the same machinery: the step trace of one period, the initial steady-state search
        if idx % 10 in (3, 6):
            case['trace_step'] = rng.randint(1, max(1, spec['maxtime']))
        if idx % 10 in (7, 8) or rng.random() < 0.1:
            case['steady'] = {'T': rng.choice([30, 100, 300]), 'tol': rng.choice([1e-4, 1e-6])}
        return case

    def solve(self, text, reduction, first=None, trace_step=None, steady=None, funcs=False):
        from sfc_models.equation_solver import EquationSolver, ConvergenceError
        s = EquationSolver(run_equation_reduction=reduction)
        s.MaxIterations = 5000
        if funcs:
            s.AddFunction('half', lambda v: 0.5 * v)
            s.AddFunction('log', lambda v: 0.125 * v + 3.0)      # deliberately NOT the logarithm
        if trace_step is not None:
            s.TraceStep = trace_step
        if steady is not None:
            s.ParameterSolveInitialSteadyState = True
            s.ParameterInitialSteadyStateMaxTime = steady['T']
            s.ParameterInitialSteadyStateErrorToler = steady['tol']
        try:
            with contextlib.redirect_stdout(io.StringIO()):
                if first is not None:
                    s.ParseString(first)
                    if first != text:
                        try:
                            s.SolveEquation()
                        except ValueError:
                            pass
                s.ParseString(text)
                s.SolveEquation()
        except ConvergenceError as e:
            return 'ConvergenceError', str(e)[:120]
        except Exception as e:
            if 'No convergence in initial equilibrium' in str(e):
                # a period of the steady-state search ran out of sweeps (the search copy has its own cap of 1000): the same kind of
                # outcome as a ConvergenceError of the main run, reported by the library as a plain ValueError
                return 'ConvergenceError', str(e)[:120]
            return type(e).__name__, str(e)[:200]
        return 'ok', dict(s.TimeSeries)

    def run_model_text(self, case):
        """The text a generated model emits (dozens of alias-like wiring equations written by the real builder),
        solved with reduction on and off at a tight tolerance."""
        from vf.gen import modelspec as M
        from sfc_models.equation_solver import EquationSolver, ConvergenceError
        rec = monitors.Recorder()
        b = M.build(case['mspec'], solve=False)
        shape = 'model_text|' + M.shape_of(case['mspec'])
        if b.error is not None:
            return {'verdict': 'notjudged', 'shape': shape + '|construction'}
        try:
            with contextlib.redirect_stdout(io.StringIO()):
                mod = b.model
                mod._GenerateFullSectorCodes()
                mod._GenerateEquations()
                mod._FixAliases()
                mod._GenerateRegisteredCashFlows()
                mod._ProcessExogenous()
                text = mod._CreateFinalEquations()
        except Exception as e:
            return {'verdict': 'notjudged', 'shape': shape + '|' + type(e).__name__}
        out = {}
        for red in (False, True):
            s = EquationSolver(run_equation_reduction=red)
            s.MaxIterations = 6000
            s.ParameterErrorTolerance = 1e-12
            try:
                with contextlib.redirect_stdout(io.StringIO()):
                    s.ParseString(text)
                    s.SolveEquation()
                out[red] = dict(s.TimeSeries)
            except ConvergenceError:
                return {'verdict': 'notjudged', 'shape': shape + '|ConvergenceError'}
            except Exception as e:
                out[red] = e
        a, bb = out[False], out[True]
        if isinstance(a, Exception) or isinstance(bb, Exception):
            if isinstance(a, Exception) and isinstance(bb, Exception):
                return {'verdict': 'notjudged', 'shape': shape + '|both_raise'}
            rec.violate('one_side_raised', {'unreduced': repr(a)[:200] if isinstance(a, Exception) else 'ok',
                                            'reduced': repr(bb)[:200] if isinstance(bb, Exception) else 'ok'})
            return {'verdict': 'violated', 'shape': shape, 'counters': rec.counters, 'violations': rec.violations}
        rec.count('pairs.compared')
        rec.count('model_text.pairs')
        if sorted(a) != sorted(bb):
            rec.violate('variable_lost_or_added', {'only_unreduced': sorted(set(a) - set(bb))[:8],
                                                   'only_reduced': sorted(set(bb) - set(a))[:8]})
        else:
            for n in a:
                for k, (x, y) in enumerate(zip(a[n], bb[n])):
                    rec.count('values.compared')
                    if not abs(x - y) <= 1e-7 * max(1.0, abs(x), abs(y)):
                        rec.violate('value_differs', {'var': n, 'k': k, 'unreduced': x, 'reduced': y, 'model': shape})
                        break
                if rec.violations:
                    break
        return {'verdict': 'violated' if rec.violations else 'held', 'nontrivial': True, 'shape': 'model_text',
                'counters': rec.counters, 'violations': rec.violations, 'obs': {'n_vars': len(a), 'shape': shape}}

    def run_case(self, case):
        if case.get('kind') == 'model_text':
            return self.run_model_text(case)
        rec = monitors.Recorder()
        spec = case['spec']
        oa, a = self.solve(case['text'], False, case.get('first'), case.get('trace_step'), case.get('steady'), case.get('funcs'))
        ob, b = self.solve(case['text'], True, case.get('first'), case.get('trace_step'), case.get('steady'), case.get('funcs'))
        if case.get('first') is not None:
            rec.count('after_earlier_parse.pairs')
        if case.get('hygiene'):
            rec.count('hygiene_names.pairs')
        if case.get('number_shapes'):
            rec.count('number_shapes.pairs')
        shape = ('cyclic' if case['cyclic'] else 'acyclic') + ('|alias' if spec['aliases'] else '') + \
                ('|deco' if spec['decos'] else '') + ('|ic' if spec['ics'] else '')
        if case.get('steady'):
            shape += '|steady_search'
        if case.get('trace_step'):
            shape += '|trace'
        if oa != 'ok' or ob != 'ok':
            if 'ConvergenceError' in (oa, ob) or 'NoEquilibriumError' in (oa, ob) or (oa != 'ok' and ob != 'ok'):
                return {'verdict': 'notjudged', 'shape': shape + '|%s/%s' % (oa, ob)}
            side = 'reduced' if ob != 'ok' else 'unreduced'
            rec.violate('one_side_raised', {'side': side, 'unreduced': oa, 'reduced': ob,
                                            'err': a if oa != 'ok' else b, 'text': case['text']})
            return {'verdict': 'violated', 'shape': shape, 'counters': rec.counters, 'violations': rec.violations}
        rec.count('pairs.compared')
        if case.get('trace_step'):
            rec.count('traced_step.pairs')
        if case.get('funcs'):
            rec.count('user_functions_in_derived_variables.pairs')
            # the custom 'log' must have been used (value of ufd_b under the registered functions)
            x = spec['simul'][0]['name']
            for k in range(1, len(a[x])):
                for side, ser in (('unreduced', a), ('reduced', b)):
                    expv = (0.125 * ser[x][k] + 3.0) - 0.5 * (0.25 * ser[x][k])
                    if abs(ser['ufd_b'][k] - expv) > 1e-9 * max(1.0, abs(expv)):
                        rec.violate('registered_function_not_used', {'side': side, 'k': k, 'got': ser['ufd_b'][k], 'expected': expv})
                        break
        if case.get('first_is_variant'):
            rec.count('after_variant_with_same_names.pairs')
        if spec.get('zero_sources'):
            rec.count('aliases_of_sources_that_are_zero_at_k0.pairs')
        if case.get('steady'):
            rec.count('steady_search_accepted.pairs')
        if spec['aliases']:
            rec.count('alias.pairs')
        if any(al['name'] in spec['ics'] for al in spec['aliases']):
            rec.count('ic_on_alias.pairs')
        if sorted(a) != sorted(b):
            rec.violate('variable_lost_or_added', {'only_unreduced': sorted(set(a) - set(b)),
                                                   'only_reduced': sorted(set(b) - set(a)), 'text': case['text']})
        else:
            tol = 1e-8 if case['cyclic'] else 1e-12
            if case.get('steady'):
                # the search solves each of its periods only to its own tolerance: the installed k=0 values (and what
                # follows from them) agree between the two runs to a small multiple of that tolerance, not better
                tol = 100.0 * case['steady']['tol']
            worst = 0.0
            for n in a:
                if len(a[n]) != len(b[n]):
                    rec.violate('series_length_differs', {'var': n, 'unreduced': len(a[n]), 'reduced': len(b[n])})
                    break
                for k, (x, y) in enumerate(zip(a[n], b[n])):
                    rec.count('values.compared')
                    d = abs(x - y)
                    lim = tol * max(1.0, abs(x), abs(y))
                    if d / lim > worst:
                        worst = d / lim
                    if not d <= lim:
                        amap = {al['name']: al['target'] for al in spec['aliases']}
                        rec.violate('value_differs', {'var': n, 'k': k, 'unreduced': x, 'reduced': y,
                                                      'ics': spec['ics'], 'aliases': amap, 'text': case['text']})
                        break
                if rec.violations:
                    break
        return {'verdict': 'violated' if rec.violations else 'held',
                'nontrivial': bool(spec['aliases'] or spec['decos']), 'shape': shape, 'counters': rec.counters,
                'violations': rec.violations, 'obs': {'n_vars': len(a), 'text': case['text'][:400]}}


PROP = C03()
