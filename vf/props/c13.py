"""C13 - name substitution is hygienic and simultaneous; list_tokens is exact."""
import keyword
import math
import random
import tokenize

from vf import monitors
from vf.gen import expr as G
from vf.runner import chash

BATCH = 250
EVAL_EXCLUDE = {'attr', 'assign'}


def _env_for(names, rng):
    env = {}
    for n in names:
        env[n] = G.Num(rng.choice([1.0, 1.25, 1.5, 1.75, 2.0, 1.125, 1.375]))
    fns = {'max': max, 'min': min, 'abs': abs, 'pow': pow, 'float': float, 'sqrt': math.sqrt,
           'exp': math.exp}
    for n in names:
        if n in fns:
            env[n] = fns[n]
    return env


def _outcome(src, env):
    try:
        v = eval(src, {'__builtins__': {}}, dict(env))
        return ('value', v)
    except Exception as e:
        return ('raise', type(e).__name__)


def _same(a, b):
    if a[0] != b[0]:
        return False
    if a[0] == 'raise':
        return a[1] == b[1]
    x, y = a[1], b[1]
    try:
        if x == y:
            return True
        if isinstance(x, (float, complex)) and isinstance(y, (float, complex)) and x != x and y != y:
            return True
    except Exception:
        pass
    return repr(x) == repr(y)


class C13(object):
    id = 'C13'
    anchors = ('list_tokens', 'replace_token', 'replace_token_from_lookup')
    title = 'Name substitution is hygienic and simultaneous'
    rule = ('cases are batches of %d random expressions (arithmetic, calls, lag notation, lists, powers, '
            'comparisons, attributes, strings, keywords, all number literal forms, unicode and '
            'prefix/suffix-overlapping names) each with a renaming map (plain, swap, 3-cycle, chain, '
            'overlapping non-tokens, function rename, merge, identity, whole pool); expected NAME list '
            'and token stream are known by construction; distinct = hash of (text, map); non-trivial = '
            'the map changes at least one token of the expression or the expression has >= 2 distinct '
            'names; one ambient case runs the book builders under in-situ wrappers' % BATCH)
    assumptions = ['CPython tokenize is the reference for what a token is',
                   'renaming targets/replacements are identifier-shaped non-keywords',
                   'the reduction caller removes all blanks from the rewritten equation: expressions with keyword '
                   'operators or string literals (not valid in equation blocks anyway) are not fed to that sub-check']
    required_counters = ('list_tokens.judged', 'lookup.judged', 'replace_token.judged', 'eval.judged', 'block_rename.judged', 'reduction_rename.judged', 'reduction_rename.targeted', 'block_rename.second_pass_judged',
                         'insitu.replace_token_from_lookup.post_evaluated',
                         'squeezed_lookalikes.judged',
                         'block_rename.new_right_hand_side_between_two_passes_judged')

    def n_cases(self, tier):
        return (20 if tier == 'quick' else 2000) + 1

    def make_case(self, rng, idx, tier):
        if idx == 0:
            return {'kind': 'ambient', 'models': ['SIM', 'PC', 'REG'] if tier == 'quick' else ['SIM', 'SIMEX1', 'PC', 'REG', 'REG2'],
                    'scripts': 'fast' if tier == 'quick' else 'all'}
        return {'kind': 'batch', 'bseed': rng.getrandbits(48), 'n': BATCH}

    def run_case(self, case):
        if case['kind'] == 'ambient':
            return self.run_ambient(case)
        import sfc_models.utils as U
        rng = random.Random(case['bseed'])
        rec = monitors.Recorder()
        keys = []
        shapes = {}
        first_obs = None
        for i in range(case['n']):
            g = G.gen_expression(rng, depth=rng.choice([1, 2, 3, 3]))
            text = G.render(rng, g['tokens'])
            kind, lk = G.gen_lookup(rng, g)
            exp_names = G.name_list(g['tokens'])
            # sanity of the generator against the reference tokenizer
            try:
                ts = monitors.token_stream(text)
            except (tokenize.TokenError, SyntaxError, IndentationError):
                rec.count('gen.untokenizable')
                continue
            mine = [t for k, t in g['tokens']]
            if [v for _, v in ts] != mine:
                rec.count('gen.mismatch')
                continue
            # --- list_tokens
            got = U.list_tokens(text)
            rec.count('list_tokens.judged')
            if list(got) != exp_names:
                rec.violate('list_tokens', {'text': text, 'got': got, 'expected': exp_names})
            # --- replace_token_from_lookup
            res = U.replace_token_from_lookup(text, dict(lk))
            rec.count('lookup.judged')
            exp_stream = [lk[t] if (k == 'NAME' and t in lk) else t for k, t in g['tokens']]
            try:
                got_stream = [v for _, v in monitors.token_stream(res)]
            except Exception as e:
                got_stream = ['<untokenizable %r>' % (e,)]
            changed = exp_stream != mine
            if got_stream != exp_stream:
                rec.violate('replace_token_stream', {'text': text, 'lookup': lk, 'result': res,
                                                     'map_kind': kind, 'expected': exp_stream[:50],
                                                     'got': got_stream[:50]})
            # --- replace_token == singleton lookup
            tgt = rng.choice(sorted(lk))
            r1 = U.replace_token(text, tgt, lk[tgt])
            rec.count('replace_token.judged')
            exp1 = [lk[tgt] if (k == 'NAME' and t == tgt) else t for k, t in g['tokens']]
            try:
                got1 = [v for _, v in monitors.token_stream(r1)]
            except Exception as e:
                got1 = ['<untokenizable %r>' % (e,)]
            if got1 != exp1:
                rec.violate('replace_token_stream', {'text': text, 'target': tgt, 'replacement': lk[tgt],
                                                     'result': r1, 'expected': exp1[:50], 'got': got1[:50]})
            # --- value preservation for maps that do not merge names of the expression
            names = sorted(set(n for n in exp_names if not keyword.iskeyword(n)))
            image = [lk.get(n, n) for n in names]
            feats = set(g['features'])
            if len(set(image)) == len(names) and not (feats & EVAL_EXCLUDE) and names:
                env = _env_for(names, rng)
                env2 = {lk.get(n, n): env[n] for n in names}
                a = _outcome(text.strip(), env)
                b = _outcome(res.strip(), env2)
                rec.count('eval.judged')
                if a[0] == 'value':
                    rec.count('eval.value_compared')
                if not _same(a, b):
                    rec.violate('replace_value', {'text': text, 'lookup': lk, 'result': res,
                                                  'orig': repr(a), 'renamed': repr(b)})
            # --- the callers: Equation / EquationBlock renaming, also with Term objects shared between equations
            if i % 5 == 0:
                self.block_rename(rng, rec, lk, kind)
            if i % 10 == 3:
                # targeted: an alias named like a number suffix right next to literals that END in that suffix
                al = rng.choice(['e5', 'E5', 'e1', 'e10', 'E2', 'j', 'J'])
                other = rng.choice(['x', 'y', 'xe5', 'e5x', 'e5_1'])
                toks = [('NUMBER', '2.' + al), ('OP', '*'), ('NAME', al), ('OP', '+'), ('NUMBER', '1.' + al),
                        ('OP', '-'), ('NAME', other), ('OP', '*'), ('NUMBER', '3.'), ('OP', '/'), ('NAME', al)]
                txt = G.render(rng, toks, style=rng.choice(['tight', 'spaced']))
                self.reduction_rename(rng, rec, txt, {'tokens': toks}, [al])
                rec.count('reduction_rename.targeted')
            if i % 25 == 7:
                # pairs of expressions that read the same once blanks are removed but are made of different names:
                # keyword operators with blanks around them next to a long identifier spelled like the squeezed text
                import tokenize as _tk
                from sfc_models import utils as _u
                pairs = [('a or b', 'aorb'), ('x if y else z', 'xifyelsez'), ('not done', 'notdone'), ('a and b', 'aandb'),
                         ('p in q', 'pinq'), ('u is v', 'uisv'), ('a not in b', 'anotinb'), ('m  *  n', 'm*n')]
                rng.shuffle(pairs)
                for e1, e2 in pairs[:4]:
                    for first_, second_ in ((e1, e2), (e2, e1)):
                        for ex in (first_, second_):
                            expn = [v for t_, v in monitors.token_stream(ex) if t_ == _tk.NAME]
                            try:
                                gotn = list(_u.list_tokens(ex))
                            except Exception as e_:
                                gotn = ['<raised %r>' % (e_,)]
                            rec.count('squeezed_lookalikes.judged')
                            if sorted(set(gotn)) != sorted(set(expn)):
                                rec.violate('list_tokens', {'expression': ex, 'asked_after': first_ if ex == second_ else None,
                                                            'got': gotn, 'expected': expn})
            if i % 4 == 1 and '=' not in text and '#' not in text and names and \
                    not (set(g['features']) & {'lag', 'keyword', 'string', 'attr'}):
                self.reduction_rename(rng, rec, text, g, names)
            if changed or len(names) >= 2:
                keys.append(chash([text, lk]))
            sh = kind + '|' + ','.join(g['features'][:3])
            shapes[sh] = shapes.get(sh, 0) + 1
            if first_obs is None:
                first_obs = {'text': text, 'lookup': lk, 'map_kind': kind, 'names': exp_names,
                             'replaced': res}
        top = max(shapes, key=shapes.get) if shapes else '-'
        return {'verdict': 'violated' if rec.violations else 'held', 'nontrivial': bool(keys),
                'evals': case['n'], 'keys': keys, 'shape': 'batch', 'counters': rec.counters,
                'violations': rec.violations, 'obs': first_obs, 'notes': shapes and {
                    'mapkind.' + k.split('|')[0]: v for k, v in _fold(shapes).items()}}

    def block_rename(self, rng, rec, lk, kind):
        """EquationBlock.ReplaceTokensFromLookup over two equations that were built from the SAME Term objects
        (and one opaque expression): every term must be renamed exactly once."""
        from sfc_models.equation import Equation, EquationBlock, Term
        names = sorted(lk)[:3]
        if not names:
            return
        pool = names + [n + '_x' for n in names[:1]]
        shared = [Term(rng.choice(['', '-']) + n) for n in pool]
        shared.append(Term(pool[0] + '*' + pool[-1]))
        # every form a simple (non-opaque) term may take: quotient of two names, number times name, name over number
        shared.append(Term(rng.choice(['', '-']) + pool[-1] + '/' + pool[0]))
        shared.append(Term('2*' + pool[min(1, len(pool) - 1)]))
        shared.append(Term(pool[0] + '/4'))
        blob = '2*(%s - %s)' % (pool[0], pool[-1])
        e1 = Equation('lhs1', 'd', [Term(blob, is_blob=True)] + shared)
        e2 = Equation('lhs2', 'd', shared)
        blk = EquationBlock()
        blk.AddEquation(e1)
        blk.AddEquation(e2)
        before = {k: monitors.token_stream(blk[k].RHS()) for k in ('lhs1', 'lhs2')}
        try:
            blk.ReplaceTokensFromLookup(dict(lk))
        except Exception as e:
            rec.violate('block_rename_raised', {'lookup': lk, 'err': repr(e)})
            return
        rec.count('block_rename.judged')
        import tokenize as _t
        for k in ('lhs1', 'lhs2'):
            exp = [(t, lk[v]) if (t == _t.NAME and v in lk) else (t, v) for t, v in before[k]]
            got = monitors.token_stream(blk[k].RHS())
            if [v for _, v in got] != [v for _, v in exp]:
                rec.violate('block_rename_not_applied_exactly_once',
                            {'equation': k, 'lookup': lk, 'map_kind': kind, 'before': [v for _, v in before[k]],
                             'got': [v for _, v in got], 'expected': [v for _, v in exp]})
                return
        # a sector equation the first pass had no reason to touch gets a NEW right-hand side (SetEquationRightHandSide) and is then
        # asked to rename names of that new text
        from sfc_models.models import Model as _M, Country as _C
        from sfc_models.sector import Sector as _S
        sec = _S(_C(_M(), 'C0', 'c'), 'S', 's', has_F=False)
        sec.AddVariable('lhs3', 'd', 'untouched_a + 2*untouched_b')
        sec.AddVariable('lhs4', 'd', blob)
        try:
            sec.EquationBlock.ReplaceTokensFromLookup(dict(lk))
            sec.SetEquationRightHandSide('lhs3', '3*late_v - untouched_a/late_w')
            sec.EquationBlock.ReplaceTokensFromLookup({'late_v': 'second_late', 'late_w': names[0]})
            got3 = [v for _, v in monitors.token_stream(sec.EquationBlock['lhs3'].RHS())]
        except Exception as e:
            rec.violate('block_rename_raised', {'lookup': lk, 'after': 'SetEquationRightHandSide between two passes', 'err': repr(e)})
            return
        rec.count('block_rename.new_right_hand_side_between_two_passes_judged')
        exp3 = ['3', '*', 'second_late', '-', 'untouched_a', '/', names[0]]
        if [v for v in got3 if v not in ('+',)] != exp3 and got3 != ['+'] + exp3:
            rec.violate('block_rename_not_applied_exactly_once',
                        {'equation': 'lhs3', 'history': 'first pass did not concern it; right-hand side replaced; second pass names the new text',
                         'got': got3, 'expected': exp3})
            return
        # a second renaming pass over the SAME objects, asking for the names the first pass introduced
        introduced = sorted(set(v for _, v in monitors.token_stream(blk['lhs1'].RHS()) if v in set(lk.values())))
        if not introduced:
            return
        lk2 = {n: 'second_%d' % i for i, n in enumerate(introduced)}
        before2 = {k: monitors.token_stream(blk[k].RHS()) for k in ('lhs1', 'lhs2')}
        try:
            blk.ReplaceTokensFromLookup(dict(lk2))
        except Exception as e:
            rec.violate('block_rename_raised', {'lookup': lk2, 'second_pass': True, 'err': repr(e)})
            return
        rec.count('block_rename.second_pass_judged')
        for k in ('lhs1', 'lhs2'):
            exp = [lk2[v] if (t == _t.NAME and v in lk2) else v for t, v in before2[k]]
            got = [v for _, v in monitors.token_stream(blk[k].RHS())]
            if got != exp:
                rec.violate('block_rename_not_applied_exactly_once',
                            {'equation': k, 'first_lookup': lk, 'second_lookup': lk2, 'before_second_pass': [v for _, v in before2[k]],
                             'got': got, 'expected': exp})
                return

    def reduction_rename(self, rng, rec, text, g, names):
        """The caller inside equation reduction: an alias `a = target` must be substituted into a dependent
        equation token by token (numbers such as 2.e5, strings and longer names untouched)."""
        import tokenize as _t
        from sfc_models.equation_parser import EquationParser
        alias = rng.choice(names)
        target = 'tgt_%d' % rng.randint(0, 9)
        if target in names or alias in ('k', 't'):
            return
        block = '%s = %s\ndep_v = %s\n%s = 1.5' % (alias, target, text.strip(), target)
        p = EquationParser()
        try:
            p.ParseString(block)
            p.GenerateTokenList()
            p.FindExactMatches()
        except Exception:
            rec.count('reduction_rename.skipped')
            return
        rec.count('reduction_rename.judged')
        exp = [target if (k == 'NAME' and tkn == alias) else tkn for k, tkn in g['tokens'] if k != 'COMMENT']
        try:
            got = [v for _, v in monitors.token_stream(p.AllEquations['dep_v'])]
        except Exception as e:
            got = ['<untokenizable %r>' % (e,)]
        if got != exp:
            rec.violate('alias_substitution_in_reduction_not_hygienic',
                        {'alias': alias, 'target': target, 'equation': text, 'after_reduction': p.AllEquations.get('dep_v'),
                         'expected_tokens': exp[:40], 'got_tokens': got[:40]})

    def run_ambient(self, case):
        from vf import ambient
        rec = monitors.Recorder()
        ins = monitors.Recorder()
        undo = monitors.install_token_monitors(ins)
        built = []
        try:
            for name in case['models']:
                try:
                    ambient.build_book(name, max_time=3)
                    built.append(name)
                except Exception as e:
                    rec.count('ambient.build_failed')
            which = case.get('scripts')
            if which:
                built += ['script:' + n for n in ambient.run_scripts(
                    ambient.FAST_SCRIPTS if which == 'fast' else ambient.ALL_SCRIPTS, rec)]
        finally:
            monitors.unpatch(undo)
        for k, v in ins.counters.items():
            rec.count('insitu.' + k, v)
        rec.violations.extend(ins.violations)
        n = ins.counters.get('replace_token_from_lookup.post_evaluated', 0)
        return {'verdict': 'violated' if rec.violations else 'held', 'nontrivial': n > 0,
                'evals': len(built), 'keys': ['ambient:' + m for m in built], 'shape': 'ambient',
                'counters': rec.counters, 'violations': rec.violations,
                'obs': {'built': built, 'insitu_calls': ins.counters}}


def _fold(shapes):
    out = {}
    for k, v in shapes.items():
        kk = k.split('|')[0]
        out[kk] = out.get(kk, 0) + v
    return out


PROP = C13()
