"""C08 - results do not depend on the order in which sectors are declared."""
import itertools
from fractions import Fraction

from vf import monitors
from vf.gen import modelspec as M
from vf.oracle import qsolve as Q

SIM_STEPS = ['GOV', 'TF', 'HH', 'LAB', 'GOOD', 'BUS']


def sim_spec(rng):
    spec = M.gen_spec(rng, n_zones=1, allow_fed=False, ext=False, maxtime=4)
    z = spec['zones'][0]
    z['gov'] = dict(z['gov'], form='consolidated', money=False, deposits=False, r=None, bonds=False)
    z['gov'].pop('tre_cash', None)
    c = z['countries'][0]
    c['hh'] = dict(c['hh'], portfolio=None, F0=None)
    c['hh'].pop('bond_share', None)
    c['cap'] = None
    c['custom'] = None
    c['second_market'] = None
    c['firm'] = {'form': 'fixed', 'margin': 0.0}
    spec['gifts'] = []
    return spec


def compare_exact(rec, base_b, base_E, other_b, other_E, ctx, name_map=None, frozen_tol=1e-5):
    """Same variable set (under name_map) and equal exact solutions for every k>=0."""
    nm = name_map or (lambda n: n)
    a_names = set(base_E.names)
    b_names = set(other_E.names)
    mapped = {nm(n): n for n in a_names}
    if set(mapped) != b_names:
        rec.violate('variable_set_differs', dict(ctx, only_base=sorted(set(mapped) - b_names)[:8],
                                                 only_other=sorted(b_names - set(mapped))[:8]))
        return False
    exact = not base_E.frozen and not other_E.frozen
    for mn, n in mapped.items():
        ea, eb = base_E.E[n], other_E.E[mn]
        for k in range(len(ea)):
            rec.count('values.compared')
            if exact:
                ok = ea[k] == eb[k]
            else:
                ok = abs(ea[k] - eb[k]) <= Fraction(frozen_tol) * max(1, abs(ea[k]), abs(eb[k]))
            if not ok:
                rec.violate('solution_differs', dict(ctx, var=n, mapped=mn, k=k, base=float(ea[k]), other=float(eb[k]),
                                                     exact_comparison=exact))
                return False
    rec.count('builds.compared')
    if exact:
        rec.count('builds.compared_exactly')
    return True


class C08(object):
    id = 'C08'
    anchors = ('FixedMarginBusiness._GenerateEquations', 'Market._GenerateTermsLowLevel', 'TaxFlow._GenerateEquations', 'Model._GenerateEquations')
    title = 'Results do not depend on the order in which sectors are declared'
    rule = ('one case = one model specification built in the canonical declaration order and in 6 (quick) / 12 (thorough) '
            "random linear extensions of the constructor dependency order within each country (markets before a "
            'multi-output firm that lists them, treasury before the central bank that is handed it), with the external '
            'sector created before or after the countries; every build is solved by the real main() and its emitted text '
            're-solved exactly; variable sets must be equal and the exact solutions equal as rationals for all k>=0 '
            '(1e-5 relative when a Tobin weight had to be frozen: the pinned value carries the solver tolerance); a permuted build that raises while the canonical one '
            'solves is a violation; thorough additionally enumerates ALL 720 orders of the six SIM declarations; '
            'distinct = hash of (spec, orders); non-trivial = >= 2 distinct orders compared')
    assumptions = ['country order and Region default-currency inheritance are documented order dependence and fixed',
                   'wiring calls (AddSupplier, SetExogenous, RegisterCashFlow, portfolio rules) follow the declarations']
    required_counters = ('builds.compared', 'builds.compared_exactly', 'orders.distinct',
                         'zone_queried_during_construction.cases', 'parameter_chain_across_sectors.cases', 'two_markets_household_buyer_nondefault_codes.cases',
                         'profitable_firm_sharing_its_market_with_an_importer.cases',
                         'households_sharing_one_portfolio_rule_object.cases',
                         'ownerless_firm_next_to_a_region_with_capitalists.cases',
                         'deposit_holder_without_a_money_demand_of_its_own.cases')

    def n_cases(self, tier):
        return 12 if tier == 'quick' else 30 + 270

    def make_case(self, rng, idx, tier):
        if tier == 'thorough' and idx < 30:
            perms = list(itertools.permutations(SIM_STEPS))
            spec = sim_spec(rng)
            return {'kind': 'sim_exhaustive', 'spec': spec, 'perms': [list(p) for p in perms[idx * 24:(idx + 1) * 24]],
                    'slice': [idx * 24, (idx + 1) * 24]}
        if idx % 6 == 5:
            spec = sim_spec(rng)
            perms = [list(p) for p in rng.sample(list(itertools.permutations(SIM_STEPS)), 8)]
            return {'kind': 'sim_exhaustive', 'spec': spec, 'perms': perms, 'slice': None}
        nz = rng.choice([1, 1, 2])
        spec = M.gen_spec(rng, n_zones=nz, maxtime=rng.randint(3, 5))
        n = 6 if tier == 'quick' else 12
        if idx % 3 != 2:
            # scalar parameters chained through several sectors (their time-zero values must not depend on the order)
            import random as _r
            M.add_param_chain(_r.Random('pchain:%d:%d' % (idx, rng.getrandbits(20))), spec)
        if idx % 3 == 1:
            # a profitable single-output firm whose market has a second supplier abroad
            sp2 = M.gen_spec(rng, n_zones=2, ext=True, allow_fed=False, maxtime=rng.randint(3, 4))
            if M.force_import_into_market_of_profitable_firm(rng, sp2):
                spec = sp2
        ownerless = False
        if idx % 6 == 4:
            # regions of one currency zone: one with capitalists and a profitable firm, the others with a profitable firm only
            sp4 = M.gen_federation_with_an_ownerless_firm(rng, maxtime=rng.randint(3, 4))
            if sp4 is not None:
                spec = sp4
                ownerless = True
        if idx % 6 == 2:
            # household and capitalists of one country hand the SAME portfolio rule object to the library when they are declared
            sp3 = M.gen_spec(rng, n_zones=1, allow_fed=False, maxtime=rng.randint(3, 4))
            if M.force_household_and_capitalists_sharing_a_portfolio_rule(rng, sp3):
                spec = sp3
        saver = False
        if idx % 12 == 9:
            # a sector that holds deposits and leaves its money demand to the money market's default, in a zone with both asset
            # markets (which of the two markets is declared first must not matter)
            sp5 = M.gen_spec(rng, n_zones=1, allow_fed=False, maxtime=rng.randint(3, 4))
            if M.force_share_portfolio_with_own_lag(rng, sp5) is not False:
                c5 = [c_ for c_ in sp5['zones'][0]['countries'] if c_['role'] != 'central'][0]
                c5['saver'] = {'share': rng.choice([0.3, 0.25]), 'F0': float(rng.randint(20, 60))}
                sp5['zones'][0]['gov']['money'] = True
                spec = sp5
                saver = True
        codes = None
        if idx % 3 == 0 and not saver:
            # two markets with prefix-related codes in which government AND household buy, a non-default labour code
            import random as _r2
            codes = M.force_two_markets_with_household_buyer(_r2.Random('two_markets:%d:%d' % (idx, rng.getrandbits(20))), spec)
        return {'kind': 'orders', 'codes': codes, 'spec': spec, 'deposit_holder_without_a_money_demand_of_its_own': saver, 'ownerless_firm_next_to_a_region_with_capitalists': ownerless, 'order_seeds': [rng.getrandbits(30) for _ in range(n)],
                'ext_first': [rng.random() < 0.5 for _ in range(n)],
                # the public zone API (GetSectors / LookupSector) is used while the sectors are being declared
                'query_zone': idx % 2 == 0}

    def run_case(self, case):
        rec = monitors.Recorder()
        spec = case['spec']
        shape = M.shape_of(spec)
        qz = bool(case.get('query_zone'))
        if qz:
            rec.count('zone_queried_during_construction.cases')
        if spec.get('param_chain'):
            rec.count('parameter_chain_across_sectors.cases')
        codes = case.get('codes')
        if codes:
            rec.count('two_markets_household_buyer_nondefault_codes.cases')
        if any(c.get('cap') and c['firm']['form'] == 'fixed' and any(i['market'] == c['key'] for i in spec['imports'])
               for z in spec['zones'] for c in z['countries'] if c['role'] != 'central'):
            rec.count('profitable_firm_sharing_its_market_with_an_importer.cases')
        if case.get('deposit_holder_without_a_money_demand_of_its_own'):
            rec.count('deposit_holder_without_a_money_demand_of_its_own.cases')
        if case.get('ownerless_firm_next_to_a_region_with_capitalists'):
            rec.count('ownerless_firm_next_to_a_region_with_capitalists.cases')
        base = M.build(spec, query_zone=qz, codes=codes)
        if getattr(base, 'weightings_reused', 0):
            rec.count('households_sharing_one_portfolio_rule_object.cases')
        if base.error is not None:
            return {'verdict': 'notjudged', 'shape': shape + '|base:' + type(base.error).__name__}
        try:
            base_E = Q.qsolve(base.model.FinalEquations, base.V)
        except Exception as e:
            return {'verdict': 'inconclusive', 'reason': 'exact re-solution of canonical build failed: %r' % (e,)}
        orders_seen = {repr(base.order)}
        variants = []
        if case['kind'] == 'orders':
            for sd, ef in zip(case['order_seeds'], case['ext_first']):
                variants.append({'order_seed': sd, 'ext_first': ef, 'query_zone': qz, 'codes': codes,
                                 'run_via_steps': len(variants) % 3 == 2})
        else:
            ck = spec['zones'][0]['countries'][0]['key']
            for p in case['perms']:
                variants.append({'order_perm': {ck: p}})
        for v in variants:
            other = M.build(spec, **v)
            ctx = {'order': other.order, 'canonical': base.order, 'ext_first': v.get('ext_first')}
            if other.error is not None:
                rec.violate('permuted_build_fails', dict(ctx, err=repr(other.error)[:300]))
                continue
            orders_seen.add(repr(other.order) + str(v.get('ext_first')))
            try:
                other_E = Q.qsolve(other.model.FinalEquations, other.V)
            except Exception as e:
                rec.violate('permuted_build_not_exactly_solvable', dict(ctx, err=repr(e)[:300]))
                continue
            compare_exact(rec, base, base_E, other, other_E, ctx)
        rec.count('orders.distinct', len(orders_seen))
        return {'verdict': 'violated' if rec.violations else 'held', 'nontrivial': len(orders_seen) >= 2,
                'evals': 1 + len(variants), 'shape': ('SIM720|' if case['kind'] == 'sim_exhaustive' else '') + shape,
                'counters': rec.counters, 'violations': rec.violations[:4],
                'obs': {'canonical_order': base.order, 'n_orders': len(orders_seen), 'n_vars': len(base_E.names),
                        'frozen': sorted(base_E.frozen)[:3], 'slice_of_720': case.get('slice')}}


PROP = C08()
