"""C01 - every generated model is stock-flow consistent in each currency.
(also the shared model-level driver used by C04 and C07)"""
import random
from fractions import Fraction

from vf import monitors
from vf.gen import modelspec as M
from vf.oracle import block as B
from vf.oracle import modelcheck as MC
from vf.oracle import qsolve as Q
from vf.runner import chash


def k_from_for(spec):
    """k>=1 when no initial stocks are imposed and nothing carries lagged holdings that start inconsistent."""
    for z in spec['zones']:
        if z['gov']['deposits'] or z['gov']['form'] in ('gold', 'gold_cb'):
            return 2
        for c in z['countries']:
            if c['role'] != 'central' and c['hh']['F0'] is not None:
                return 2
    return 1


def solve_and_judge(case, which, in_situ=True):
    """Build with the real classes, run the real main(), re-solve the emitted text exactly, run the selected
    checkers.  Returns the result dict of a run_case."""
    spec = case['spec']
    rec = monitors.Recorder()
    ins = monitors.Recorder()
    undo = []
    if in_situ:
        undo += monitors.install_cashflow_monitor(ins)
        undo += monitors.install_token_monitors(ins)
    try:
        b = M.build(spec, ext_first=case.get('ext_first', True) or bool(spec.get('row')),
                    **case.get('build_opts', {}))
    finally:
        monitors.unpatch(undo)
    shape = M.shape_of(spec)
    for k_, v in ins.counters.items():
        rec.count('insitu.' + k_, v)
    for v in ins.violations:
        rec.violations.append(v)
    if b.error is not None:
        name = type(b.error).__name__
        return {'verdict': 'notjudged', 'shape': shape + '|' + name, 'counters': rec.counters,
                'obs': {'error': repr(b.error)[:300]}, 'notes': {'main_raised.' + name: 1}}
    text = b.model.FinalEquations
    try:
        E = Q.qsolve(text, b.V)
    except Exception as e:
        return {'verdict': 'inconclusive', 'reason': 'exact re-solution failed: %r' % (e,), 'shape': shape}
    T = spec['maxtime']
    J = MC.Judge(E, k_from_for(spec), T)
    for name, fn in (('ledger', MC.check_ledgers), ('zone', MC.check_zone_conservation),
                     ('markets', MC.check_markets), ('fx', MC.check_fx)):
        if name not in which:
            continue
        try:
            fn(J, b, spec)
        except KeyError as e:
            # a variable the spec's declarations imply (a flow, a supply, an interest payment) does not exist
            J.violate('declared_variable_missing_in_built_model', {'checker': name, 'missing': str(e)[:200]})
    for k_, v in J.counts.items():
        rec.count(k_, v)
    rec.violations.extend(J.violations)
    # cross-check: the real solver's floats are within its tolerance of the exact solution
    worst = 0.0
    for n in E.names:
        for k in range(1, T + 1):
            d = abs(float(E.E[n][k]) - b.V[n][k]) / max(1.0, abs(b.V[n][k]))
            worst = max(worst, d)
    rec.count('models.judged')
    for opt, on in case.get('build_opts', {}).items():
        if on and opt not in ('codes', 'order_seed', 'mutate_returned_lists'):
            rec.count('models.judged.with_' + opt)
    if sum(1 for z in spec['zones'] if z['kind'] == 'federation' and sum(1 for c in z['countries'] if c.get('cap')) >= 2):
        rec.count('models.judged.with_capitalists_in_several_regions_of_a_zone')
    if any(z['gov'].get('bonds') and any(c.get('hh', {}).get('bond_share') for c in z['countries'] if c['role'] != 'central')
           for z in spec['zones']):
        rec.count('models.judged.with_three_asset_portfolio')
    if case.get('build_opts', {}).get('codes') and any('GOOD' in v or 'SRV' in v or 'LAB' in v for v in case['build_opts']['codes'].values()):
        rec.count('models.judged.with_prefix_related_market_codes_and_household_in_both')
    if case.get('build_opts', {}).get('codes') and any(v.get('GOV') == 'HHGOV' for v in case['build_opts']['codes'].values()):
        rec.count('models.judged.with_issuer_code_containing_a_holders_code')
    if any(z.get('cross_buy') for z in spec['zones']):
        rec.count('models.judged.with_households_buying_in_another_regions_market')
    if getattr(b, 'currency_members_overwritten', 0):
        rec.count('models.judged.with_country_currency_member_overwritten_after_construction')
    if case.get('build_opts', {}).get('declare_first') and any(c.get('cap') for z in spec['zones'] for c in z['countries'] if c['role'] != 'central'):
        rec.count('models.judged.with_the_firm_declared_before_its_owners')
    if spec['zones'][0]['kind'] == 'federation' and any(c.get('firm', {}).get('margin') and not c.get('cap') for c in spec['zones'][0]['countries'] if c['role'] == 'region') \
            and any(c.get('cap') for c in spec['zones'][0]['countries'] if c['role'] == 'region'):
        rec.count('models.judged.with_an_ownerless_profitable_firm_next_to_a_region_with_capitalists')
    if getattr(b, 'weights_shifted', 0):
        rec.count('models.judged.with_numeric_portfolio_weights_overridden_by_a_path')
    if getattr(b, 'lists_mutated', False):
        rec.count('models.judged.with_getter_results_emptied_by_the_caller')
    if getattr(b, 'predeclared_lag', 0):
        rec.count('models.judged.with_holder_declaring_its_own_lagged_deposits')
    if getattr(b, 'weightings_reused', 0):
        rec.count('models.judged.with_portfolio_rule_object_shared_by_households')
    if any(z['gov'].get('asset_markets_in') and z['gov'].get('deposits') for z in spec['zones']):
        rec.count('models.judged.with_deposit_market_away_from_its_issuer')
    if spec['imports'] and case.get('build_opts', {}).get('interleave_model'):
        rec.count('models.judged.with_cross_zone_supplier_and_interleaved_models')
    rec.count('exact.variables', len(E.names))
    rec.count('exact.frozen_equations', len(E.frozen))
    nontrivial = J.max_flow > Fraction(1, 1000)
    return {'verdict': 'violated' if rec.violations else 'held', 'nontrivial': nontrivial, 'shape': shape,
            'counters': rec.counters, 'violations': rec.violations[:6],
            'obs': {'n_equations': len(E.names), 'frozen': sorted(E.frozen)[:4], 'largest_flow': float(J.max_flow),
                    'k_from': J.k_from, 'solver_vs_exact_rel': worst, 'shape': shape},
            'worst': {'solver_vs_exact_rel': worst}}


def gen_case(rng, idx, tier, emphasis=None):
    r = idx % 8
    forced_codes = None
    if emphasis == 'fx':
        nz = rng.choice([2, 2, 3])
        spec = M.gen_spec(rng, n_zones=nz, ext=True)
        if not (spec['gifts'] or spec['imports']):
            spec = M.gen_spec(rng, n_zones=nz, ext=True)
    elif r == 1:
        # portfolios over three assets (deposits, bonds, money as the residual) through the weighting helper
        spec = M.gen_spec(rng, n_zones=rng.choice([1, 1, 2]))
        M.force_three_asset_portfolio(rng, spec)
        if idx % 16 == 9:
            for c_ in spec['zones'][0]['countries']:
                if c_['role'] != 'central' and c_['hh'].get('bond_share'):
                    c_['hh']['portfolio'] = 'share'
                    c_['hh']['share'] = c_['hh'].get('share') or 0.5
                    c_['hh']['weights_as_numbers_then_shifted'] = True
    elif r == 0:
        spec = M.gen_spec(rng, n_zones=1)
        if idx % 16 == 8:
            M.force_share_portfolio_with_own_lag(rng, spec)
    elif r == 3 and idx % 16 == 11:
        # regions of one currency zone: capitalists and a profitable firm in one, a profitable firm WITHOUT owners in the others
        # (it retains its profits: nobody in another region has a claim on them)
        spec = M.gen_federation_with_an_ownerless_firm(rng, maxtime=rng.randint(3, 5)) or M.gen_spec(rng, n_zones=1)
    elif r == 2:
        # two zones trading with each other, built while unrelated Model() objects come and go
        spec = M.ensure_cross_import(rng, M.gen_spec(rng, n_zones=2, ext=True))
    elif r == 4:
        # two markets with prefix-related codes, the household buying in both; random declaration order
        spec = M.gen_spec(rng, n_zones=rng.choice([1, 2]))
        forced_codes = M.force_two_markets_with_household_buyer(rng, spec)
    elif r == 3:
        spec = M.gen_spec(rng, n_zones=2)
    elif r == 5:
        spec = M.gen_spec(rng, n_zones=3, maxtime=4)
    elif r == 6:
        # a federation whose asset markets are declared in a region, the issuer in the central country
        spec = M.gen_federation_with_region_asset_markets(rng, all_tobin=(idx % 16 == 6), caps=(idx % 16 == 14))
    else:
        spec = M.gen_spec(rng)
        if idx % 16 == 7:
            # custom issuer codes that CONTAIN the codes of other sectors (a household 'HH' next to the issuer 'HHGOV' / 'HHTRE',
            # a business 'BUS' next to the central bank 'CBUS'); the first zone has interest-bearing deposits and money
            M.force_share_portfolio_with_own_lag(rng, spec)
            forced_codes = {}
            for z in spec['zones']:
                for c in z['countries']:
                    if c['role'] in ('single', 'central'):
                        forced_codes[c['key']] = {'GOV': 'HHGOV', 'TRE': 'HHTRE', 'CB': 'CBUS'}
    return {'kind': 'model', 'spec': spec, 'ext_first': rng.random() < 0.7,
            'build_opts': {'query_zone': rng.random() < 0.3, 'interleave_model': idx % 2 == 0 or rng.random() < 0.2,   # r == 2 is even
                           'region_default_currency': rng.random() < 0.4,
                           # the model is run through the GUI's step list instead of main()
                           'run_via_steps': idx % 4 == 3,
                           # the firm (and the markets) declared before households and capitalists in every country
                           'declare_first': (['BUS', 'GOOD', 'LAB'] if idx % 16 == 14 else []),
                           'codes': forced_codes, 'order_seed': (rng.getrandbits(20) if (forced_codes and idx % 16 == 12) else None)}}


class C01(object):
    id = 'C01'
    anchors = ('Sector.AddCashFlow', 'Model._GenerateRegisteredCashFlows', 'Market._GenerateTermsLowLevel', 'Market._GenerateMultiSupply', 'TaxFlow._GenerateEquations', 'DepositMarket._GenerateEquations', 'CentralBank._GenerateEquations', 'FixedMarginBusiness._GenerateEquations', 'ForexTransations._SendMoney', 'ForexTransations._ReceiveMoney', 'InternationalGold.SetGoldPurchases')
    title = 'Every generated model is stock-flow consistent in each currency'
    rule = ('one case = one random model specification (1-3 currency zones; single country or federation with a '
            'central government region; consolidated government, treasury+central bank or gold-standard government; '
            'Household / HouseholdWithExpectations, capitalists with positive margin, single- and multi-output firms; '
            'money and deposit markets with fixed-share or Tobin portfolios; gifts with all four income-flag '
            'combinations within and across zones; imports within a federation and across zones; time-varying non-unit '
            'exchange rates; initial stocks) built with the real classes and solved by the real Model.main(); the '
            'emitted text is re-solved exactly (Fractions) and (1) per currency sum dF + NET == 0, (2) every sector '
            "ledger dF == signed sum of the flows the spec declares for it (cross-currency amounts at the period's cross "
            'rate) must hold exactly for k >= 2 (k >= 1 without initial stocks/deposits/gold); in-situ AddCashFlow '
            'wrapper during the build; distinct = hash of spec; non-trivial = largest judged flow > 1e-3')
    assumptions = ['topologies outside the spec language (user-defined sectors) are not explored',
                   'numeraire zone itself is not judged (gold purchases legitimately leave a numeraire position)',
                   'exact re-solution pins genuinely non-affine equations (Tobin weight) to the solver value']
    required_counters = ('models.judged', 'money_created_or_destroyed_in_zone.judged',
                         'sector_ledger_not_sum_of_declared_flows.judged', 'insitu.addcashflow.post_evaluated',
                         'models.judged.with_interleave_model', 'models.judged.with_deposit_market_away_from_its_issuer',
                         'models.judged.with_cross_zone_supplier_and_interleaved_models', 'models.judged.with_run_via_steps',
                         'models.judged.with_prefix_related_market_codes_and_household_in_both',
                         'models.judged.with_capitalists_in_several_regions_of_a_zone',
                         'models.judged.with_three_asset_portfolio',
                         'models.judged.with_holder_declaring_its_own_lagged_deposits',
                         'models.judged.with_households_buying_in_another_regions_market',
                         'retry_after_refusal.judged',
                         'models.judged.with_issuer_code_containing_a_holders_code',
                         'models.judged.with_the_firm_declared_before_its_owners',
                         'models.judged.with_an_ownerless_profitable_firm_next_to_a_region_with_capitalists')
    which = ('zone', 'ledger')

    def n_cases(self, tier):
        return 32 if tier == 'quick' else 1500

    def make_case(self, rng, idx, tier):
        if idx % 16 == 13:
            # a cross-currency flow refused for want of an external sector; the caller adds one and builds again
            return {'kind': 'retry_after_refusal', 'gift': rng.choice([2.5, 4.0, 1.0]), 'inc': rng.random() < 0.5,
                    'domestic_first': rng.random() < 0.5, 'attempts': rng.choice([1, 1, 2]),
                    'xr_cad': [rng.choice([1.0, 1.25, 0.8, 2.0]) for _ in range(6)],
                    'xr_usd': [rng.choice([1.0, 0.5, 1.6, 2.5]) for _ in range(6)]}
        return gen_case(rng, idx, tier)

    def run_case(self, case):
        if case.get('kind') == 'retry_after_refusal':
            from vf.props import c07
            return c07.PROP.run_retry_after_refusal(case)
        return solve_and_judge(case, self.which)


PROP = C01()
