"""C15 - an accepted initial steady state really is steady."""
import contextlib
import copy
import io
import math

from vf import monitors

SLACK = 3.0


def gen_dynamics(rng):
    """x_k = A x_{k-1} + b with A block diagonal (real eigenvalues / rotation-scaling blocks)."""
    n_blocks = rng.randint(1, 3)
    calm = rng.random() < 0.5
    rows = []   # list of (name, {lagname: coef}, const)
    names = []
    kind_tags = []
    idx = 0
    for _ in range(n_blocks):
        kind = rng.choice(['stable', 'stable', 'unit', 'unstable', 'negative', 'neg_unstable', 'complex_stable',
                           'complex_unit', 'complex_unstable', 'slow', 'flip_zero'])
        if calm:
            kind = rng.choice(['stable', 'stable', 'negative', 'complex_stable'])
        elif rng.random() < 0.12:
            kind = 'explosive'
        kind_tags.append(kind)
        target = rng.choice([5.0, 20.0, -5.0, -40.0, 0.0, -0.5, 100.0, -1000.0])
        if kind.startswith('complex'):
            r = {'complex_stable': rng.choice([0.5, 0.9]), 'complex_unit': 1.0,
                 'complex_unstable': rng.choice([1.05, 1.5])}[kind]
            th = rng.choice([0.3, 1.0, 2.0, 3.0])
            a, b_ = r * math.cos(th), r * math.sin(th)
            x, y = 'x%d' % idx, 'x%d' % (idx + 1)
            idx += 2
            t2 = rng.choice([target, -target, 3.0])
            # constants so that (target, t2) is the fixed point
            c1 = target - (a * target - b_ * t2)
            c2 = t2 - (b_ * target + a * t2)
            rows.append((x, {'LAG_' + x: a, 'LAG_' + y: -b_}, c1))
            rows.append((y, {'LAG_' + x: b_, 'LAG_' + y: a}, c2))
            names += [x, y]
        else:
            lam = {'stable': rng.choice([0.1, 0.5, 0.9]), 'unit': 1.0, 'unstable': rng.choice([1.01, 1.2, 2.0]),
                   'negative': rng.choice([-0.5, -0.9]), 'neg_unstable': rng.choice([-1.0, -1.5]),
                   'slow': rng.choice([0.99, 0.999]), 'explosive': rng.choice([-40.0, 30.0, 1000.0, 1e6]),
                   'flip_zero': -1.0}[kind]
            if kind == 'flip_zero':
                target = 0.0      # undamped period-2 oscillation symmetric about zero
            x = 'x%d' % idx
            idx += 1
            c = target * (1 - lam) if lam != 1.0 else rng.choice([0.0, 0.0, -1.0, 0.01])
            rows.append((x, {'LAG_' + x: lam}, c))
            names.append(x)
    ics = {}
    for nm in names:
        ics[nm] = rng.choice([0.0, 1.0, -5.0, -205.0, 50.0, 1e-5, -1e-5, 3.0])
    if 'explosive' in kind_tags or 'flip_zero' in kind_tags:
        for nm in names:
            if abs(ics[nm]) < 1e-3:
                ics[nm] = 2.0
    with_exo = rng.random() < 0.5
    exo = None
    if with_exo:
        exo = [rng.choice([1.0, 2.0, -3.0])] + [float(rng.randint(-5, 5)) for _ in range(6)]
        r0 = rows[0]
        rows[0] = (r0[0], dict(r0[1], U=1.0), r0[2] - exo[0])   # same fixed point when U frozen at U[0]
    trend = None
    if rng.random() < 0.15:
        # the dynamics depend on the time axis (a drift): such a system has no steady state
        trend = rng.choice([0.05, -0.2, 0.5])
        r0 = rows[0]
        rows[0] = (r0[0], dict(r0[1], t=trend), r0[2])
        kind_tags.append('time_trend')
    deco = rng.random() < 0.6
    # a within-period simultaneous loop driven by the first state (solved with a tight per-period tolerance), and a
    # derived variable that is a small difference of a converging state and a constant
    loop = rng.choice([None, None, 0.5, 0.9])
    tgt0 = None
    r0 = rows[0]
    lam0 = list(r0[1].values())[0] if len(r0[1]) == 1 else None
    if lam0 is not None and abs(lam0) < 1 and kind_tags[0] in ('stable', 'slow', 'negative') and trend is None:
        c0 = r0[2] + (exo[0] if exo is not None else 0.0)
        tgt0 = c0 / (1 - lam0)
    near = (0.99 * tgt0) if (tgt0 is not None and abs(tgt0) > 1.0 and rng.random() < 0.6) else None
    return {'rows': [[n, c, k] for n, c, k in rows], 'names': names, 'ics': ics, 'exo': exo, 'deco': deco,
            'kinds': kind_tags, 'loop': loop, 'near_cancel': near}


def render(d, maxtime=5):
    out = []
    for n, coefs, const in d['rows']:
        terms = [repr(float(const))]
        for v, a in coefs.items():
            terms.append('%r*%s' % (float(a), v))
        out.append('%s = %s' % (n, ' + '.join(terms)))
        out.append('LAG_%s = %s(k-1)' % (n, n))
    for n, v in d['ics'].items():
        out.append('%s(0) = %r' % (n, v))
    if d['deco']:
        out.append('total = ' + ' + '.join(d['names']))
        out.append('neg = -2.0*' + d['names'][0] + ' - 1.0')
    if d.get('loop'):
        out.append('YY = CC + ' + d['names'][0])
        out.append('CC = %r*YY' % (d['loop'],))
    if d.get('near_cancel') is not None:
        out.append('bal = %s - %r' % (d['names'][0], float(d['near_cancel'])))
    out.append('MaxTime = %d' % maxtime)
    if d['exo'] is not None:
        out.append('exogenous')
        out.append('U = ' + repr(d['exo']))
    return '\n'.join(out)


class C15(object):
    id = 'C15'
    anchors = ('EquationSolver.CalculateInitialSteadyState', 'EquationSolver._GetCopy', 'EquationSolver.SolveStep')
    title = 'An accepted initial steady state really is steady'
    rule = ('one case = one linear lag system x_k = A x_{k-1} + b (1-3 blocks: stable, slow, unit, unstable <= 2, '
            'negative, oscillating, complex stable/unit/unstable eigenvalues; fixed points positive, negative, zero, '
            'sign-changing; optional exogenous input; derived sums incl. a negated one), search horizon 3-300, tolerance '
            '1e-2..1e-8; the real CalculateInitialSteadyState is run after SetInitialConditions; on success one further '
            'real SolveStep(1) on a deep copy with exogenous frozen at k=0 must move no non-excluded variable by more '
            'than %g*tol*max(1,|v|) (values inside the absolute band 1e-4 the search treats as zero are exempt); failure must be NoEquilibriumError/ValueError; '
            'parser lists, exogenous series and horizon are compared with deep snapshots; distinct = hash of case; '
            'non-trivial = the search accepted, or rejected a genuinely unsteady system' % SLACK)
    assumptions = ['slack %g: a mode of modulus <= 2 may grow one step past the acceptance test' % SLACK,
                   'inner solves are exact (recursive blocks), so inner tolerance cannot blur the verdict']
    required_counters = ('accepted.judged', 'accepted.negative_valued', 'rejected.judged', 'untouched.judged',
                         'via_solve_equation', 'inner_loop_tight_tolerance.cases', 'near_cancelling_derived.cases', 'acceptance_window.cases', 'solver_reused_after_search_of_variant.cases',
                         'another_solvers_exclusion_list_extended_in_place.cases',
                         'coarse_per_period_tolerance.cases',
                         'second_search_after_a_rejected_one.cases',
                         'solver_reused_after_search_of_a_block_with_these_names_exogenous.cases',
                         'two_cycle_inside_the_tolerance.cases',
                         'lag_of_a_lag_feedback.cases',
                         'user_function_replaced_after_an_accepted_search.cases',
                         'equation_that_cannot_be_evaluated.cases',
                         'accepted.equations_evaluated_independently',
                         'derived_variable_overflows.cases',
                         'names_beginning_like_the_excluded_ones.cases')

    def n_cases(self, tier):
        return 300 if tier == 'quick' else 20000

    def window_case(self, rng):
        """A slowly converging state next to a derived variable that is a small difference of it and a constant, with a
        horizon chosen so that the state already passes the (relative) acceptance test while the derived variable would
        not: the acceptance test has to look at every reported variable, derived ones included."""
        lam = rng.choice([0.5, 0.8, 0.9, 0.95, 0.97])
        tgt = rng.choice([100.0, -1000.0, 40.0, 250.0, -60.0])
        ic = rng.choice([0.0, 50.0, -5.0, 3.0])
        frac = rng.choice([0.99, 0.98, 1.02, 0.995])
        tol = 10 ** rng.uniform(-6, -3)
        x_prev, k_accept = ic, None
        for k in range(1, 2000):
            x = lam * x_prev + tgt * (1 - lam)
            if abs(x - x_prev) <= tol * abs(x):
                k_accept = k
                break
            x_prev = x
        d = {'rows': [['x0', {'LAG_x0': lam}, tgt * (1 - lam)]], 'names': ['x0'], 'ics': {'x0': ic}, 'exo': None,
             'deco': rng.random() < 0.5, 'kinds': ['stable', 'acceptance_window'], 'loop': None, 'near_cancel': frac * tgt}
        T = min(600, (k_accept or 300) + rng.randint(0, 3))
        return {'kind': 'search', 'dyn': d, 'text': render(d), 'T': T, 'loop_default_tolerance': False,
                'coarse_step_tolerance': rng.random() < 0.3, 'tol': tol, 'reduction': rng.random() < 0.8,
                'via_solve': rng.random() < 0.3, 'window': True}

    def make_case(self, rng, idx, tier):
        if idx % 12 == 5:
            return self.window_case(rng)
        if idx % 12 == 0:
            # a behavioural rule supplied as a user function; the solver first searched with ANOTHER rule registered under the
            # same name (a scenario change without re-parsing)
            a_ = rng.choice([0.5, 0.8, 0.25])
            b1, b2 = rng.choice([10.0, 5.0]), rng.choice([25.0, 40.0])
            text = 'x = rule(LAG_x)\nLAG_x = x(k-1)\ny = 0.5*x + 1.0\nx(0) = 1.0\nMaxTime = 5'
            d = {'rows': [], 'names': ['x', 'y'], 'ics': {}, 'exo': None, 'deco': False, 'kinds': ['user_function_rule'], 'loop': None,
                 'near_cancel': None}
            return {'kind': 'search', 'dyn': d, 'text': text, 'T': rng.choice([100, 200, 300]), 'loop_default_tolerance': False,
                    'coarse_step_tolerance': False, 'tol': 10 ** rng.uniform(-6, -3), 'reduction': rng.random() < 0.5,
                    'via_solve': (idx // 12) % 2 == 1, 'rules': [[a_, b1], [a_, b2]]}
        if idx % 24 == 8:
            # variables whose names begin like the excluded ones (t_rev, k_stock next to t and k): a drifting capital stock, or a
            # stable system whose tax revenue must be installed like everything else
            drifting = (idx // 24) % 2 == 0
            text = ('k_stock = LAG_k_stock + %s\nLAG_k_stock = k_stock(k-1)\nt_rev = 0.2*y_out\ny_out = 0.5*LAG_y + 10.0 + 0.0*k_stock\n'
                    'LAG_y = y_out(k-1)\nk_stock(0) = 5.0\nMaxTime = 5' % ('1.0' if drifting else '0.5*(8.0 - LAG_k_stock)'))
            d = {'rows': [], 'names': ['k_stock', 't_rev', 'y_out'], 'ics': {}, 'exo': None, 'deco': False,
                 'kinds': ['names_beginning_like_the_excluded_ones'], 'loop': None, 'near_cancel': None}
            return {'kind': 'search', 'dyn': d, 'text': text, 'T': rng.choice([60, 100, 200]), 'loop_default_tolerance': False,
                    'coarse_step_tolerance': False, 'tol': 10 ** rng.uniform(-6, -3), 'reduction': rng.random() < 0.5,
                    'via_solve': False, 'lookalike_names': True}
        if idx % 24 == 20:
            # a derived-only variable that overflows to +/- infinity (no Python exception) while everything else settles
            sgn = rng.choice(['', '-'])
            text = 'bal = 0.5*LAG_bal + 1.0\nLAG_bal = bal(k-1)\nscaled = %sbal*1e308*1000.\nw = 0.5*w + bal\nbal(0) = 1.0\nMaxTime = 5' % sgn
            d = {'rows': [], 'names': ['bal', 'scaled', 'w'], 'ics': {}, 'exo': None, 'deco': False,
                 'kinds': ['derived_variable_overflows'], 'loop': None, 'near_cancel': None}
            return {'kind': 'search', 'dyn': d, 'text': text, 'T': rng.choice([20, 60, 100]), 'loop_default_tolerance': False,
                    'coarse_step_tolerance': False, 'tol': 10 ** rng.uniform(-6, -3), 'reduction': True,
                    'via_solve': False, 'overflowing_derived': True}
        if idx % 12 == 1:
            # one equation can never be evaluated (a division by an exact zero) while everything else settles: no steady state can
            # be reported, wherever that equation stands in the block
            lines = ['g = 0.5*LAG_g + 2.5', 'LAG_g = g(k-1)', 'gap = g - g', 'cover = g/gap', 'w = 0.5*w + g']
            rng.shuffle(lines)
            if rng.random() < 0.5:
                lines.insert(rng.randint(0, len(lines)), 't = k')
            text = '\n'.join(lines) + '\ng(0) = 1.0\nMaxTime = 5'
            d = {'rows': [], 'names': ['g', 'gap', 'cover', 'w'], 'ics': {}, 'exo': None, 'deco': False,
                 'kinds': ['equation_that_cannot_be_evaluated'], 'loop': None, 'near_cancel': None}
            return {'kind': 'search', 'dyn': d, 'text': text, 'T': rng.choice([20, 60, 100]), 'loop_default_tolerance': False,
                    'coarse_step_tolerance': False, 'tol': 10 ** rng.uniform(-6, -3), 'reduction': rng.random() < 0.5,
                    'via_solve': False, 'unevaluable': True}
        if idx % 12 == 6:
            # a lag of a lag feeding back: x[k] = c + lam*x[k-2].  lam = -1: a period-four cycle a,b,c-a,c-b whose values come in
            # equal pairs when a == b; lam = 0.5: a path that settles in pairs (0,20,20,30,30,35,...) stopped early
            lam = -1.0 if (idx // 12) % 2 == 0 else 0.5
            c = float(rng.choice([20.0, 10.0, 0.0])) if lam < 0 else 20.0
            a = float(rng.choice([12.0, 1.0, 3.0])) if lam < 0 else 0.0
            T = rng.choice([4, 6, 8, 30, 200]) if lam < 0 else rng.choice([4, 6, 8])
            text = 'x = %r + %r*v\nw = x(k-1)\nv = w(k-1)\nx(0) = %r\nw(0) = %r\nv(0) = %r\nMaxTime = 5' % (c, lam, a, a, (c - a) if lam < 0 else 0.0)
            d = {'rows': [], 'names': ['x', 'w', 'v'], 'ics': {}, 'exo': None, 'deco': False,
                 'kinds': ['lag_of_a_lag_feedback'], 'loop': None, 'near_cancel': None}
            return {'kind': 'search', 'dyn': d, 'text': text, 'T': T, 'loop_default_tolerance': False,
                    'coarse_step_tolerance': False, 'tol': 10 ** rng.uniform(-6, -3), 'reduction': rng.random() < 0.5,
                    'via_solve': False, 'lag_of_a_lag': True}
        if idx % 12 == 7:
            # an undamped two-cycle whose two points both lie inside +/- tolerance (tolerance well above the absolute band
            # 1e-4 the search treats as zero): it moves by more than the tolerance every period, absolutely and relatively
            tol = 10 ** rng.uniform(-2.7, -2)
            amp = rng.choice([0.6, 0.8, 0.95]) * tol
            c = rng.choice([0.0, 0.2, -0.1]) * tol
            d = {'rows': [['x0', {'LAG_x0': -1.0}, c]], 'names': ['x0'], 'ics': {'x0': amp}, 'exo': None, 'deco': False,
                 'kinds': ['two_cycle_inside_the_tolerance'], 'loop': None, 'near_cancel': None}
            return {'kind': 'search', 'dyn': d, 'text': render(d), 'T': rng.choice([3, 4, 10, 31]), 'loop_default_tolerance': False,
                    'coarse_step_tolerance': False, 'tol': tol, 'reduction': rng.random() < 0.5, 'via_solve': False,
                    # a scalar mode of modulus 1: the next move equals the last one, so no slack is needed for this state
                    'sharp_states': ['x0']}
        d = gen_dynamics(rng)
        via_solve = rng.random() < 0.3
        if via_solve and d['exo'] is not None:
            d['exo'] = [d['exo'][0]] * len(d['exo'])     # constant input: period 1 of the real solve IS the further step
        T = rng.choice([3, 5, 10, 30, 100, 300, 300])
        if d.get('loop'):
            T = min(T, 100)      # tight per-period solves of a loop with gain 0.9 are slow
        loop_default = bool(d.get('loop')) and rng.random() < 0.3
        earlier = None
        if idx % 12 in (2, 8):
            dv = copy.deepcopy(d)
            dv['rows'] = [[n_, c_, k_ * 0.5 + 3.0] for n_, c_, k_ in dv['rows']]
            dv['near_cancel'] = None
            earlier = render(dv)
        earlier_exo = False
        if idx % 12 == 11:
            # the same solver object first searched ANOTHER block, in which the names that are states / derived variables
            # here were exogenous constants
            others = list(d['names']) + ['total', 'neg', 'bal', 'YY', 'CC']
            earlier = ('q0 = 0.5*LAG_q0 + 0.01*(' + ' + '.join(others) + ')\nLAG_q0 = q0(k-1)\nq0(0) = 1.\nMaxTime = 3\nexogenous\n' +
                       '\n'.join('%s = [%r]*40' % (n_, float(i_ + 1)) for i_, n_ in enumerate(others)))
            earlier_exo = True
        return {'kind': 'search', 'dyn': d, 'text': render(d), 'T': T, 'loop_default_tolerance': loop_default,
                'earlier_names_exogenous': earlier_exo,
                'earlier_variant': earlier, 'other_solver_excludes': idx % 12 in (3, 9),
                'retry_after_rejection': idx % 12 in (4, 10),
                'coarse_step_tolerance': (not d.get('loop')) and rng.random() < 0.3,
                'tol': 10 ** rng.uniform(-8, -2), 'reduction': rng.random() < 0.5,
                'via_solve': via_solve or (idx % 12 == 4 and (d['exo'] is None or len(set(d['exo'])) == 1))}

    def run_case(self, case):
        from sfc_models.equation_solver import EquationSolver, NoEquilibriumError
        rec = monitors.Recorder()
        if case.get('other_solver_excludes'):
            # another solver in the process extends ITS list of variables excluded from the steady-state test in place
            o = EquationSolver('x0 = 0.5*LAG_x0 + 1\nLAG_x0 = x0(k-1)\nMaxTime = 2')
            o.ParameterInitialSteadyStateExcludedVariables += list(case['dyn']['names']) + ['total', 'neg', 'bal']
            rec.count('another_solvers_exclusion_list_extended_in_place.cases')
        s = EquationSolver(run_equation_reduction=case['reduction'])
        with contextlib.redirect_stdout(io.StringIO()):
            if case.get('earlier_variant'):
                # the same solver object first searched a VARIANT of the system (same names, other constants)
                try:
                    s.ParseString(case['earlier_variant'])
                    s.ExtractVariableList()
                    s.SetInitialConditions()
                    s.ParameterInitialSteadyStateMaxTime = 30
                    s.CalculateInitialSteadyState()
                    if case.get('earlier_names_exogenous'):
                        rec.count('solver_reused_after_search_of_a_block_with_these_names_exogenous.cases')
                except Exception:
                    pass
                rec.count('solver_reused_after_search_of_variant.cases')
            if case.get('rules'):
                (ra, rb), (ra2, rb2) = case['rules']
                s.AddFunction('rule', lambda v, ra=ra, rb=rb: ra * v + rb)
            s.ParseString(case['text'])
            s.ExtractVariableList()
            s.SetInitialConditions()
            if case.get('rules'):
                # first job: the search under the first rule; then the caller swaps the rule and starts over without re-parsing
                s.ParameterInitialSteadyStateMaxTime = case['T']
                s.ParameterInitialSteadyStateErrorToler = case['tol']
                try:
                    if case.get('via_solve'):
                        s.ParameterSolveInitialSteadyState = True
                        s.SolveEquation()
                    else:
                        s.CalculateInitialSteadyState()
                    rec.count('user_function_replaced_after_an_accepted_search.cases')
                except Exception:
                    pass
                s.AddFunction('rule', lambda v, ra2=ra2, rb2=rb2: ra2 * v + rb2)
                s.SetInitialConditions()
        s.ParameterInitialSteadyStateMaxTime = case['T']
        s.ParameterInitialSteadyStateErrorToler = case['tol']
        default_step_tol = bool(case['dyn'].get('loop')) and case.get('loop_default_tolerance', False)
        if case['dyn'].get('loop') and not default_step_tol:
            # the user asks for exact per-period solves; the search has to honour that
            s.ParameterErrorTolerance = 1e-13
            s.MaxIterations = 5000
            rec.count('inner_loop_tight_tolerance.cases')
        elif default_step_tol:
            rec.count('inner_loop_default_tolerance.cases')
        elif case.get('coarse_step_tolerance'):
            # a coarse per-period tolerance (irrelevant for these recursive blocks) must not loosen the acceptance test
            s.ParameterErrorTolerance = 1e-2
            rec.count('coarse_per_period_tolerance.cases')
        if case['dyn'].get('near_cancel') is not None:
            rec.count('near_cancelling_derived.cases')
        if case.get('window'):
            rec.count('acceptance_window.cases')
        if case.get('sharp_states'):
            rec.count('two_cycle_inside_the_tolerance.cases')
        if case.get('lag_of_a_lag'):
            rec.count('lag_of_a_lag_feedback.cases')
        if case.get('unevaluable'):
            rec.count('equation_that_cannot_be_evaluated.cases')
        if case.get('overflowing_derived'):
            rec.count('derived_variable_overflows.cases')
        if case.get('lookalike_names'):
            rec.count('names_beginning_like_the_excluded_ones.cases')
        exo_names = [n for n, _ in s.Parser.Exogenous]

        def snap():
            p = s.Parser
            return copy.deepcopy({'endo': list(p.Endogenous), 'lag': list(p.Lagged),
                                  # the solver's own step counter 'k' is (re-)appended by every SetInitialConditions
                                  'exo': [e for e in p.Exogenous if e[0] != 'k'],
                                  'deco': list(p.Decoration), 'ic': dict(p.InitialConditions), 'maxtime': p.MaxTime,
                                  'tol': p.Err_Tolerance, 'all': dict(p.AllEquations),
                                  'exo_series': {n: list(s.TimeSeries[n]) for n in exo_names},
                                  'solver_maxtime': s.MaxTime, 'cap': s.MaxIterations, 'varlist': list(s.VariableList)})
        before = snap()
        outcome = 'accepted'
        if case.get('retry_after_rejection'):
            # a first search with a hopelessly short horizon is rejected; the caller catches that, allows more periods and asks
            # again on the same solver (no re-parse)
            s.ParameterInitialSteadyStateMaxTime = 2
            try:
                with contextlib.redirect_stdout(io.StringIO()):
                    if case.get('via_solve'):
                        s.ParameterSolveInitialSteadyState = True
                        s.SolveEquation()
                    else:
                        s.CalculateInitialSteadyState()
            except Exception:
                rec.count('second_search_after_a_rejected_one.cases')
            s.ParameterInitialSteadyStateMaxTime = case['T']
        try:
            with contextlib.redirect_stdout(io.StringIO()):
                if case.get('via_solve'):
                    # the public path: the search is switched on and runs inside SolveEquation()
                    s.ParameterSolveInitialSteadyState = True
                    s.SolveEquation()
                    rec.count('via_solve_equation')
                else:
                    s.CalculateInitialSteadyState()
        except NoEquilibriumError:
            outcome = 'NoEquilibriumError'
        except ValueError as e:
            outcome = 'ValueError'
        except Exception as e:
            outcome = 'OTHER:' + type(e).__name__ + ':' + str(e)[:100]
        after = snap()
        rec.count('untouched.judged')
        if repr(before) != repr(after):
            diff = [k for k in before if repr(before[k]) != repr(after[k])]
            rec.violate('search_modified_solver_inputs', {'changed': diff,
                                                          'before': {k: before[k] for k in diff},
                                                          'after': {k: after[k] for k in diff}})
        shape = 'search|' + '+'.join(sorted(set(case['dyn']['kinds'])))
        if outcome.startswith('OTHER'):
            rec.violate('unexpected_exception_type', {'outcome': outcome, 'text': case['text']})
            return {'verdict': 'violated', 'shape': shape, 'counters': rec.counters, 'violations': rec.violations}
        # what THIS case configured (it never touches the list): the documented default
        excluded = set(['k', 't'])
        nontrivial = False
        obs = {'outcome': outcome, 'T': case['T'], 'tol': case['tol'], 'kinds': case['dyn']['kinds']}
        if outcome == 'accepted':
            nontrivial = True
            rec.count('accepted.judged')
            # an accepted state must at least allow every equation of the block to be evaluated (independent evaluation: current
            # and lagged values both taken from the installed state)
            from vf.oracle import block as _B
            import math as _math
            blk_ = _B.split_block(case['text'])
            env_ = {n_: s.TimeSeries[n_][0] for n_ in s.TimeSeries}
            for ln_, src_ in blk_['lag']:
                if src_ in env_:
                    env_[ln_] = env_[src_]
            genv_ = {k_: getattr(_math, k_) for k_ in dir(_math) if not k_.startswith('_')}
            genv_.update({'__builtins__': {}, 'max': max, 'min': min, 'abs': abs, 'rule': s.Functions.get('rule')})
            for n_, rhs_ in blk_['endo']:
                rec.count('accepted.equations_evaluated_independently')
                try:
                    val_ = eval(rhs_, genv_, dict(env_))
                except (ArithmeticError, ValueError) as e_:
                    rec.violate('accepted_state_leaves_an_equation_that_cannot_be_evaluated',
                                {'equation': '%s = %s' % (n_, rhs_), 'error': repr(e_), 'installed': {k_: env_[k_] for k_ in sorted(env_)[:8]},
                                 'text': case['text']})
                    break
                except Exception:
                    continue
            if rec.violations:
                return {'verdict': 'violated', 'shape': shape, 'counters': rec.counters, 'violations': rec.violations, 'nontrivial': True}
            s2 = copy.deepcopy(s)
            s2.TraceStep = None
            s2.MaxIterations = max(s2.MaxIterations, 5000)     # the further period is solved accurately, whatever it takes
            if case.get('via_solve'):
                # SolveEquation already produced period 1 from the installed values (constant exogenous input)
                for n in list(s2.TimeSeries.keys()):
                    s2.TimeSeries[n] = list(s2.TimeSeries[n][:1]) if n not in exo_names else s2.TimeSeries[n]
            for n in exo_names:
                if n == 'k':
                    continue
                s2.TimeSeries[n] = [s2.TimeSeries[n][0]] * len(s2.TimeSeries[n])
            v0 = {n: s2.TimeSeries[n][0] for n in s2.TimeSeries}
            bad = [n for n, v in v0.items() if isinstance(v, float) and (v != v or abs(v) == float('inf'))]
            if bad:
                rec.violate('accepted_state_not_finite', {'vars': bad[:5], 'values': [repr(v0[n]) for n in bad[:5]],
                                                          'T': case['T'], 'text': case['text']})
                return {'verdict': 'violated', 'shape': shape, 'counters': rec.counters, 'violations': rec.violations,
                        'nontrivial': True}
            try:
                with contextlib.redirect_stdout(io.StringIO()):
                    s2.SolveStep(1)
            except Exception as e:
                rec.violate('accepted_state_cannot_be_stepped', {'err': repr(e), 'text': case['text']})
                return {'verdict': 'violated', 'shape': shape, 'counters': rec.counters, 'violations': rec.violations}
            worst = 0.0
            neg = False
            for n, series in s2.TimeSeries.items():
                if n in excluded or n in exo_names:
                    continue
                a, b = v0[n], series[1]
                if a < -1e-4:
                    neg = True
                if abs(a) < 1e-4 and abs(b) < SLACK * 1e-4:
                    continue     # near zero on the absolute scale the search itself uses (band 1e-4, same slack)
                lim = SLACK * case['tol'] * max(1.0, abs(a))
                if n in case.get('sharp_states', ()):
                    lim = (1.0 + 1e-9) * case['tol'] * max(1.0, abs(a))
                ratio = abs(b - a) / lim
                worst = max(worst, ratio)
                if not abs(b - a) <= lim:
                    # mechanism: did the two sampled points of the search really (almost) coincide while the system
                    # carries a non-decaying oscillation?  (the two-point acceptance test sampled a turning point)
                    mech = 'accepted_steady_state_moves'
                    try:
                        ss = s.TimeSeriesInitialSteadyState[n]
                        legit = abs(ss[-1] - ss[-2]) <= case['tol'] * max(1.0, abs(ss[-1]))
                        osc = set(case['dyn']['kinds']) & {'complex_unit', 'complex_unstable', 'neg_unstable', 'flip_zero'}
                        if legit and osc:
                            mech = 'D15_oscillation_sampled_at_turning_point'
                        gain = case['dyn'].get('loop')
                        if default_step_tol and gain and abs(b - a) <= (3.0 / (1.0 - gain) + 3.0) * case['tol'] * max(1.0, abs(a)):
                            # explained by the accuracy of the search's own per-period solves (tolerance = the
                            # acceptance tolerance, amplified by the loop gain)
                            mech = 'D17_search_periods_solved_only_to_acceptance_tolerance'
                    except Exception:
                        pass
                    rec.violate('accepted_steady_state_moves', {'var': n, 'k0': a, 'k1': b, 'tol': case['tol'],
                                                                'search_last_two': list(ss[-2:]) if 'ss' in dir() else None,
                                                                'moved_by_tolerances': abs(b - a) / (case['tol'] * max(1.0, abs(a))),
                                                                'T': case['T'], 'text': case['text']}, mechanism=mech)
                    break
            if neg:
                rec.count('accepted.negative_valued')
            obs['worst_move_over_limit'] = worst
        else:
            rec.count('rejected.judged')
            nontrivial = True
        return {'verdict': 'violated' if rec.violations else 'held', 'nontrivial': nontrivial, 'shape': shape,
                'counters': rec.counters, 'violations': rec.violations, 'obs': obs,
                'worst': {'move_over_limit': obs.get('worst_move_over_limit')}}


PROP = C15()
