"""C06 - sector ledgers reflect exactly the cash flows recorded on them (shadow ledger)."""
import contextlib
import io
import random

from vf import monitors
from vf.runner import chash

NAMES = ['W', 'C', 'T', 'DIV', 'INT', 'GIFT', 'DEM_GOOD', 'SUP_LAB', 'X1', 'X2']
FULL = ['HH__W', 'GOV__T', '_7__GIFT', 'BUS__DIV', 'EXT_XR__CAD_USD']
VALS = [1.0, 2.0, 4.0, 0.5, 3.0, 5.0, 1.5, 0.25, 6.0, 8.0]
P2 = [1.0, 2.0, 4.0, 0.5, 0.25, 8.0]
DEFS = ['', '0.0', 'X1 + X2', '5.', '2*W', 'LAG_F*0.5', 'max(W, C)', 'W - C']


def gen_term(rng):
    pool = NAMES + FULL
    r = rng.random()
    if r < 0.7:
        core = rng.choice(pool)
    elif r < 0.9:
        core = rng.choice(pool) + '*' + rng.choice(pool)
    else:
        core = rng.choice(pool) + '/' + rng.choice(pool)
    form = rng.choice(['', '', '+', '-', '-', '-()', '(-)', '+()', '-(-)', ' - ', ' + '])
    sign = 1.0
    if form in ('', '+', ' + '):
        text = form + core
    elif form in ('-', ' - '):
        text, sign = form + core, -1.0
    elif form == '-()':
        text, sign = '-(' + core + ')', -1.0
    elif form == '(-)':
        text, sign = '(-' + core + ')', -1.0
    elif form == '+()':
        text = '+(' + core + ')'
    else:
        text = '-(-' + core + ')'
    if rng.random() < 0.2:
        text = ' ' + text.replace('*', ' * ') + '  '
    return text, sign, core


def gen_history(rng):
    ops = []
    # exclusions first (the unambiguous reading), also for a *different* sector on the same names
    for _ in range(rng.randint(0, 3)):
        ops.append({'op': 'exclude', 'sector': rng.choice(['S', 'S', 'OTHER']), 'name': rng.choice(NAMES + FULL + ['W*C'])})
    for _ in range(rng.randint(0, 3)):
        ops.append({'op': 'addvar', 'name': rng.choice(NAMES), 'eqn': rng.choice(DEFS)})
    n = rng.randint(1, 40)
    for _ in range(n):
        r = rng.random()
        if r < 0.8:
            text, sign, core = gen_term(rng)
            simple_local = core in NAMES
            eqn = None
            if simple_local and rng.random() < 0.5:
                eqn = rng.choice(DEFS + ['HH__W * 0.5', 'GOV__T'])
            ops.append({'op': 'flow', 'term': text, 'sign': sign, 'core': core, 'eqn': eqn,
                        'is_income': rng.random() < 0.7, 'desc': rng.choice([None, 'a flow', ''])})
        elif r < 0.83:
            # a registration that must be REFUSED: a defining expression for a flow whose name is a full (double
            # underscore) name of another sector; the caller catches the error and carries on
            sign = rng.choice([1.0, -1.0])
            core = rng.choice(['HH__W', 'GOV__T', 'BUS__DIV'])
            ops.append({'op': 'flow_refused', 'term': ('-' if sign < 0 else rng.choice(['', '+'])) + core, 'sign': sign, 'core': core,
                        'eqn': rng.choice(['5.', 'X1 + X2', '2*W']), 'is_income': rng.random() < 0.5, 'desc': 'cannot be defined here'})
        elif r < 0.86:
            ops.append({'op': 'addvar', 'name': rng.choice(NAMES), 'eqn': rng.choice(DEFS)})
        elif r < 0.92:
            ops.append({'op': 'setrhs', 'name': rng.choice(NAMES), 'eqn': rng.choice(DEFS)})
        elif r < 0.96:
            ops.append({'op': 'flow', 'term': rng.choice(['', '  ']), 'sign': 1.0, 'core': '', 'eqn': None,
                        'is_income': True, 'desc': None})
        else:
            ops.append({'op': 'exclude_late', 'sector': 'S', 'name': rng.choice(NAMES)})
    return ops


class _N(float):
    def __call__(self, *a):
        return _N(float(self) * 0.5)


def _eval(src, env):
    return eval(src, {'__builtins__': {}, 'max': max, 'min': min, 'abs': abs}, dict(env))


def valuations(rng):
    out = []
    for i in range(3):
        pool = P2 if i == 0 else VALS
        env = {n: _N(rng.choice(pool)) for n in NAMES + FULL + ['LAG_F', 'F', 'INC']}
        if i > 0:
            for n in NAMES + FULL:   # divisors stay powers of two -> quotients exact
                pass
        out.append(env)
    return out


class C06(object):
    id = 'C06'
    anchors = ('Sector.AddCashFlow', 'Equation.AddTerm', 'Model.AddCashFlowIncomeExclusion')
    title = 'Sector ledgers reflect exactly the cash flows recorded on them'
    rule = ('one case = one history of 1-40 calls on a real Sector (AddCashFlow with signed / bracketed / product / '
            'quotient / full-name terms, repeats and cancellations, eqn None/empty/expression, income flag; income '
            'exclusions for this and for another sector; AddVariable / SetEquationRightHandSide with every kind of '
            'pre-existing definition), replayed against a shadow ledger; after every call F, INC and every touched '
            'flow definition are evaluated under 3 exact valuations and must equal the shadow (==); distinct = hash '
            'of the history; non-trivial = >= 3 flows incl. a repeat or a cancellation; one ambient case wraps '
            'AddCashFlow during book-model builds')
    assumptions = ['an exclusion added after an income registration of the same name is ambiguous in the statement: '
                   'generated and replayed, INC not judged from then on',
                   "definitions spelled '0.' or '0' (grey zone of identically zero) are not generated"]
    required_counters = ('flow.judged', 'inc.judged', 'def.judged', 'insitu.addcashflow.post_evaluated',
                         'registered.ledgers_judged', 'registered.histories_with_repeated_flow',
                         'refused_registration.judged',
                         'registered.flows_under_temporary_names_repeated_and_cancelled',
                         'registered.processing_refused_then_repeated_after_defining_the_variable',
                         'history.returned_name_list_edited_in_place_before_registration',
                         'exclusion_registered_for_a_same_coded_sector_of_another_country')

    def n_cases(self, tier):
        return (300 if tier == 'quick' else 30000) + 1

    def make_case(self, rng, idx, tier):
        if idx == 0:
            return {'kind': 'ambient', 'models': ['SIM', 'PC', 'REG'] if tier == 'quick' else ['SIM', 'SIMEX1', 'PC', 'REG', 'REG2'],
                    'scripts': 'fast' if tier == 'quick' else 'all'}
        if idx % 6 == 3:
            # flows registered at the model level (Model.RegisterCashFlow) between three sectors: repeats of the same
            # (source, target, variable), both directions, every combination of the income flags
            secs = ['A', 'B', 'C']
            regs = []
            for _ in range(rng.randint(2, 14)):
                src = rng.choice(secs)
                dst = rng.choice([x for x in secs if x != src])
                regs.append({'src': src, 'dst': dst, 'var': rng.choice(['X', 'Y']),
                             'inc_src': rng.random() < 0.6, 'inc_dst': rng.random() < 0.6})
            if rng.random() < 0.8:
                regs.append(dict(rng.choice(regs)))            # an exact repeat
                if rng.random() < 0.5:
                    r2 = dict(rng.choice(regs))
                    r2['inc_src'], r2['inc_dst'] = not r2['inc_src'], not r2['inc_dst']
                    regs.append(r2)                            # the same flow again with the other income flags
            rng.shuffle(regs)
            late = (idx // 6) % 3 == 1
            if late:
                # the FIRST registered flow names an amount variable that does not exist yet ("only needs to exist when
                # registered cash flows are processed"): processing is refused before anything is booked, the caller
                # defines the variable and processes the registered flows again
                regs[0]['var'] = 'Z'
            return {'kind': 'registered', 'regs': regs, 'vseed': rng.getrandbits(32), 'twice': False, 'late_var': late}
        ops_ = gen_history(rng)
        if idx % 6 == 0:
            # product flows excluded from income under exactly the spelling they are registered with (factors NOT in alphabetical order)
            ops_ = ([{'op': 'exclude', 'sector': 'S', 'name': 'W*C'}, {'op': 'exclude', 'sector': 'S', 'name': 'X2*X1'}] + ops_ +
                    [{'op': 'flow', 'term': 'W*C', 'sign': 1.0, 'core': 'W*C', 'eqn': None, 'is_income': True, 'desc': None},
                     {'op': 'flow', 'term': '-X2*X1', 'sign': -1.0, 'core': 'X2*X1', 'eqn': None, 'is_income': True, 'desc': 'a product'},
                     {'op': 'flow', 'term': '+C*W', 'sign': 1.0, 'core': 'C*W', 'eqn': None, 'is_income': True, 'desc': None}])
        if idx % 6 == 5:
            # exclusions registered for a sector with the SAME short code in another country of the model: they are that
            # sector's business only
            ops_ = [{'op': 'exclude', 'sector': 'TWIN', 'name': n_} for n_ in NAMES[:4]] + ops_
        return {'kind': 'history', 'ops': ops_, 'vseed': rng.getrandbits(32),
                'host': rng.choice(['Sector', 'Sector', 'Household']),
                # the caller decorates, in place, the list of names it was handed (for a report) before every registration
                'decorate_returned_names': idx % 6 == 1}

    def run_registered(self, case):
        from sfc_models.models import Model, Country
        from sfc_models.sector import Sector
        rec = monitors.Recorder()
        rng = random.Random(case['vseed'])
        mod = Model()
        ca = Country(mod, 'CA', 'Canada')
        S = {c: Sector(ca, c, 'sector ' + c) for c in ('A', 'B', 'C')}
        for c, sec in S.items():
            sec.AddVariable('X', 'amount X', '1.0')
            sec.AddVariable('Y', 'amount Y', '2.0')
        # flows booked directly under TEMPORARY names (requested before the full codes exist): repeated, and a cancelling pair;
        # the later alias clean-up must keep their accumulated coefficients
        direct = {}
        if case.get('alias_flows', True):
            nx = S['B'].GetVariableName('X')
            ny = S['C'].GetVariableName('Y')
            reps = 2 + (case['vseed'] % 2)
            for _ in range(reps):
                S['A'].AddCashFlow('+' + nx)
            S['A'].AddCashFlow('+' + ny)
            S['A'].AddCashFlow('-' + ny)
            S['A'].AddCashFlow('-' + nx, is_income=False)
            direct = {'F': {'B__X': float(reps - 1), 'C__Y': 0.0}, 'INC': {'B__X': float(reps), 'C__Y': 0.0}}
            rec.count('registered.flows_under_temporary_names_repeated_and_cancelled')
        for r in case['regs']:
            mod.RegisterCashFlow(S[r['src']], S[r['dst']], r['var'], is_income_source=r['inc_src'], is_income_dest=r['inc_dst'])
        try:
            with contextlib.redirect_stdout(io.StringIO()):
                mod._GenerateFullSectorCodes()
                mod._GenerateEquations()
                mod._FixAliases()
                if case.get('late_var'):
                    try:
                        mod._GenerateRegisteredCashFlows()
                        rec.violate('flow_with_undefined_amount_variable_not_refused', {'regs': case['regs'][:1]})
                    except KeyError:
                        rec.count('registered.processing_refused_then_repeated_after_defining_the_variable')
                    for c, sec in S.items():
                        sec.AddVariable('Z', 'amount Z, defined late', '3.0')
                mod._GenerateRegisteredCashFlows()
        except Exception as e:
            rec.violate('call_raised', {'err': repr(e), 'regs': case['regs']})
            return {'verdict': 'violated', 'shape': 'registered', 'counters': rec.counters, 'violations': rec.violations}
        repeats = len(case['regs']) - len(set((r['src'], r['dst'], r['var']) for r in case['regs']))
        for trial in range(3):
            env = {'LAG_F': float(rng.randint(1, 64))}
            for c in S:
                for v in ('X', 'Y', 'Z'):
                    env['%s__%s' % (c, v)] = float(rng.randint(1, 64))
            for c, sec in S.items():
                expF, expI = env['LAG_F'], 0.0
                for r in case['regs']:
                    amt = env['%s__%s' % (r['src'], r['var'])]
                    if r['src'] == c:
                        expF -= amt
                        if r['inc_src']:
                            expI -= amt
                    if r['dst'] == c:
                        expF += amt
                        if r['inc_dst']:
                            expI += amt
                if c == 'A':
                    for nm_, cf_ in direct.get('F', {}).items():
                        expF += cf_ * env[nm_]
                    for nm_, cf_ in direct.get('INC', {}).items():
                        expI += cf_ * env[nm_]
                F, INC = sec.EquationBlock['F'].RHS(), sec.EquationBlock['INC'].RHS()
                local = dict(env)
                local['X'], local['Y'], local['Z'] = env[c + '__X'], env[c + '__Y'], env[c + '__Z']
                try:
                    gotF, gotI = _eval(F, local), _eval(INC if INC.strip() else '0.0', local)
                except Exception as e:
                    rec.violate('ledger_unevaluable', {'sector': c, 'F': F, 'INC': INC, 'err': repr(e)})
                    break
                if gotF != expF:
                    rec.violate('F_not_lagged_assets_plus_flows', {'sector': c, 'F': F, 'expected': expF, 'got': gotF,
                                                                  'registered': case['regs']})
                    break
                if gotI != expI:
                    rec.violate('INC_not_sum_of_income_flows', {'sector': c, 'INC': INC, 'expected': expI, 'got': gotI,
                                                                'registered': case['regs']})
                    break
                rec.count('registered.ledgers_judged')
            if rec.violations:
                break
        if repeats:
            rec.count('registered.histories_with_repeated_flow')
        return {'verdict': 'violated' if rec.violations else 'held', 'nontrivial': len(case['regs']) >= 3,
                'shape': 'registered', 'counters': rec.counters, 'violations': rec.violations,
                'obs': {'n_registered': len(case['regs']), 'repeats': repeats, 'F_A': S['A'].EquationBlock['F'].RHS()[:200]}}

    def run_case(self, case):
        if case['kind'] == 'ambient':
            return self.run_ambient(case)
        if case['kind'] == 'registered':
            return self.run_registered(case)
        from sfc_models.models import Model, Country
        from sfc_models.sector import Sector
        from sfc_models.sector_definitions import Household
        rec = monitors.Recorder()
        rng = random.Random(case['vseed'])
        envs = valuations(rng)
        mod = Model()
        ca = Country(mod, 'CA', 'Canada')
        if case['host'] == 'Household':
            sec = Household(ca, 'S', 'host')
            shadow_excl = {'DEM_GOOD'}
            defs = {'AlphaIncome': None, 'AlphaFin': None, 'DEM_GOOD': 'keep', 'AfterTax': 'keep', 'T': '',
                    'SUP_LAB': 'keep'}
        else:
            sec = Sector(ca, 'S', 'host')
            shadow_excl = set()
            defs = {}
        other = Sector(ca, 'OTHER', 'other')
        twin = Sector(Country(mod, 'US', 'another country'), 'S', 'a sector with the same short code elsewhere')
        coefF, coefINC = {}, {}
        inc_ambiguous = False
        income_registered = set()
        flows = 0
        stress = False
        # local pre-existing variables of the household host are left alone: do not use their names for eqn
        protected = set(defs)
        for j, op in enumerate(case['ops']):
            try:
                if op['op'] == 'exclude':
                    mod.AddCashFlowIncomeExclusion({'S': sec, 'TWIN': twin}.get(op['sector'], other), op['name'])
                    if op['sector'] == 'TWIN':
                        rec.count('exclusion_registered_for_a_same_coded_sector_of_another_country')
                    if op['sector'] == 'S':
                        if op['name'] in income_registered:
                            inc_ambiguous = True
                        shadow_excl.add(op['name'])
                    continue
                if op['op'] == 'exclude_late':
                    mod.AddCashFlowIncomeExclusion(sec, op['name'])
                    if op['name'] in income_registered:
                        inc_ambiguous = True
                    shadow_excl.add(op['name'])
                    continue
                if op['op'] == 'addvar':
                    if op['name'] in protected:
                        continue
                    sec.AddVariable(op['name'], 'pre', op['eqn'])
                    defs[op['name']] = op['eqn']
                    continue
                if op['op'] == 'setrhs':
                    if op['name'] in protected or op['name'] not in defs:
                        continue
                    sec.SetEquationRightHandSide(op['name'], op['eqn'])
                    defs[op['name']] = op['eqn']
                    continue
                if op['op'] == 'flow_refused':
                    raised = None
                    try:
                        sec.AddCashFlow(op['term'], eqn=op['eqn'], desc=op['desc'], is_income=op['is_income'])
                    except Exception as e:
                        raised = type(e).__name__
                    rec.count('refused_registration.judged')
                    if raised is None:
                        rec.violate('definition_for_a_foreign_full_name_not_refused', {'at': j, 'op': op})
                        break
                    # two readings of a refused registration are acceptable - the flow was booked before the definition
                    # failed, or nothing was booked - but F and INC must agree on ONE of them
                    counts_as_income = op['is_income'] and op['core'] not in shadow_excl
                    for booked in (True, False):
                        cF, cI = dict(coefF), dict(coefINC)
                        if booked:
                            cF[op['core']] = cF.get(op['core'], 0.0) + op['sign']
                            if counts_as_income:
                                cI[op['core']] = cI.get(op['core'], 0.0) + op['sign']
                        probe = monitors.Recorder()
                        if self.judge(sec, cF, cI, defs, envs, probe, j, op, inc_ambiguous, protected):
                            coefF, coefINC = cF, cI
                            if booked and counts_as_income:
                                income_registered.add(op['core'])
                            break
                    else:
                        rec.violate('ledgers_inconsistent_after_a_refused_registration',
                                    {'at': j, 'op': op, 'F': sec.EquationBlock['F'].RHS(), 'INC': sec.EquationBlock['INC'].RHS(),
                                     'shadow_F': coefF, 'shadow_INC': coefINC})
                        break
                    continue
                # flow
                eqn = op['eqn'] if op['core'] not in protected else None
                if case.get('decorate_returned_names'):
                    handed = sec.GetVariables()
                    for i_ in range(len(handed)):
                        handed[i_] = 'S.' + handed[i_]
                    rec.count('history.returned_name_list_edited_in_place_before_registration')
                sec.AddCashFlow(op['term'], eqn=eqn, desc=op['desc'], is_income=op['is_income'])
            except Exception as e:
                rec.violate('call_raised', {'at': j, 'op': op, 'err': repr(e)})
                break
            if op['core'] == '':
                continue
            flows += 1
            core = op['core']
            if core in coefF:
                stress = True
            coefF[core] = coefF.get(core, 0.0) + op['sign']
            if op['is_income'] and core not in shadow_excl:
                coefINC[core] = coefINC.get(core, 0.0) + op['sign']
                income_registered.add(core)
            if eqn is not None:
                cur = defs.get(core, 'ABSENT')
                if cur == 'ABSENT' or cur in ('', '0.0'):
                    defs[core] = eqn
            if not self.judge(sec, coefF, coefINC, defs, envs, rec, j, op, inc_ambiguous, protected):
                break
        return {'verdict': 'violated' if rec.violations else 'held', 'nontrivial': flows >= 3 and stress,
                'shape': case['host'], 'counters': rec.counters, 'violations': rec.violations,
                'obs': {'F': sec.EquationBlock['F'].RHS()[:200], 'INC': sec.EquationBlock['INC'].RHS()[:200],
                        'flows': flows}}

    def judge(self, sec, coefF, coefINC, defs, envs, rec, j, op, inc_ambiguous, protected):
        F = sec.EquationBlock['F'].RHS()
        INC = sec.EquationBlock['INC'].RHS()
        for env in envs:
            expF = env['LAG_F']
            for core, c in coefF.items():
                expF = expF + c * _eval(core, env)
            expI = 0.0
            for core, c in coefINC.items():
                expI = expI + c * _eval(core, env)
            try:
                gotF = _eval(F, env)
                gotI = _eval(INC, env)
            except Exception as e:
                rec.violate('ledger_unevaluable', {'after_call': j, 'op': op, 'F': F, 'INC': INC, 'err': repr(e)})
                return False
            quot = any('/' in c for c in coefF)
            okF = (gotF == expF) if not quot else abs(gotF - expF) <= 1e-9 * max(1.0, abs(expF))
            if not okF:
                rec.violate('F_not_lagged_assets_plus_flows', {'after_call': j, 'op': op, 'F': F, 'expected': expF,
                                                              'got': gotF, 'shadow': coefF})
                return False
            if not inc_ambiguous:
                okI = (gotI == expI) if not quot else abs(gotI - expI) <= 1e-9 * max(1.0, abs(expI))
                if not okI:
                    rec.violate('INC_not_sum_of_income_flows', {'after_call': j, 'op': op, 'INC': INC,
                                                                'expected': expI, 'got': gotI, 'shadow': coefINC})
                    return False
        rec.count('flow.judged')
        if not inc_ambiguous:
            rec.count('inc.judged')
        # definitions of flow variables
        for name, d in defs.items():
            if name in protected or d is None:
                continue
            if name not in sec.EquationBlock:
                rec.violate('flow_variable_not_defined', {'after_call': j, 'op': op, 'var': name, 'shadow': d})
                return False
            real = sec.EquationBlock[name].RHS()
            for env in envs[:2]:
                try:
                    a = _eval(real if real != '' else '0.0', env)
                    b = _eval(d if d != '' else '0.0', env)
                except Exception as e:
                    rec.violate('definition_unevaluable', {'var': name, 'real': real, 'shadow': d, 'err': repr(e)})
                    return False
                if a != b:
                    rec.violate('definition_differs_from_shadow', {'after_call': j, 'op': op, 'var': name,
                                                                   'real': real, 'shadow': d})
                    return False
            rec.count('def.judged')
        # no variable beyond the shadow's may appear (e.g. a product term turned into a variable)
        return True

    def run_ambient(self, case):
        from vf import ambient
        rec = monitors.Recorder()
        ins = monitors.Recorder()
        undo = monitors.install_cashflow_monitor(ins)
        built = []
        try:
            for name in case['models']:
                try:
                    ambient.build_book(name, max_time=2)
                    built.append(name)
                except Exception:
                    rec.count('ambient.build_failed')
            which = case.get('scripts')
            if which:
                built += ['script:' + n for n in ambient.run_scripts(
                    ambient.FAST_SCRIPTS if which == 'fast' else ambient.ALL_SCRIPTS, rec)]
        finally:
            monitors.unpatch(undo)
        for k, v in ins.counters.items():
            rec.count('insitu.' + k, v)
        rec.violations.extend(ins.violations)
        return {'verdict': 'violated' if rec.violations else 'held',
                'nontrivial': ins.counters.get('addcashflow.post_evaluated', 0) > 0, 'evals': len(built),
                'keys': ['ambient:' + m for m in built], 'shape': 'ambient', 'counters': rec.counters,
                'violations': rec.violations, 'obs': {'built': built, 'insitu': ins.counters}}


PROP = C06()
