"""C11 - unsolvable or invalid input fails loudly and in bounded work."""
import builtins
import contextlib
import io
import keyword
import math

from vf import monitors
from vf.gen import eqsys as G
from vf.oracle import block as B


class SweepBudgetExceeded(BaseException):
    """Raised by the counting function at cap+2 sweeps in one period (a hang, decided on logical steps)."""


def all_reserved():
    names = []
    for n in ['self', 'None', 'k'] + list(keyword.kwlist) + dir(builtins) + dir(math):
        if n not in names:
            names.append(n)
    return names


SWITCH_KINDS = {
    # name: (equations using exogenous switch A (benign value, hostile value), persistent_error, description)
    'expansive': ('x = A*cnt(x, k) + 1\ny = 0.5*x + 0.1*y', 0.5, 3.0, False),
    'oscillating': ('x = A*cnt(x, k) + 1\ny = 0.5*x + 0.1*y', 0.5, -3.0, False),
    'oscillating5': ('x = A*cnt(x, k) + 1', 0.25, -5.0, False),
    'overflow': ('x = A*1e200*cnt(x, k)*x + 1\ny = 0.5*x', 0.0, 1.0, False),
    'no_fixed_point_drift': ('x = cnt(x, k) + A\ny = 0.5*y + 1', 0.0, 1.0, False),
    'no_real_fixed_point': ('x = A*cnt(x, k)*x + 2\ny = 0.25*x', 0.0, 1.0, False),
    'div_zero': ('x = 0.5*cnt(x, k) + 1/(A-0.3)\ny = 0.5*x', 1.3, 0.3, True),
    'log_zero': ('x = 0.5*cnt(x, k) + log10(A)\ny = 0.5*x', 10.0, 0.0, True),
    'failpoint_zde': ('x = 0.5*cnt(x, k) + boom(A)\ny = 0.5*x', 0.0, 1.0, True),
    'failpoint_ve': ('x = 0.5*cnt(x, k) + boomv(A)\ny = 0.5*x', 0.0, 1.0, True),
    'expansive_pair': ('x = A*y + cnt(1.0, k)\ny = A*x + 1', 0.4, 2.0, False),
}


class C11(object):
    id = 'C11'
    anchors = ('EquationSolver._SolveStep', 'EquationParser.ValidateInputs', 'Model._AddCountry', 'Country._AddSector', 'Market._SearchSupplier', 'Model._GenerateRegisteredCashFlows')
    title = 'Unsolvable or invalid input fails loudly and in bounded work'
    exhaustive = False
    rule = ('case kinds: (a) switch - a system that is benign up to a drawn period and is then switched through an '
            'exogenous coefficient into expansive / oscillating / overflowing / no-fixed-point / persistent '
            'division-by-zero, log10(0) or always-raising failpoint behaviour, caps 0-50, tolerances 1e-10..1e-2, '
            'driven by SolveEquation or stepwise; sweeps per period counted by an instrumented user function '
            '(<= cap+1; cap+2 raises a private exception), outcome must be normal (then judged by the residual '
            'monitor, forbidden under a persistent evaluation error) or ConvergenceError/ValueError/ArithmeticError, '
            'and after a failure all non-exogenous series have the failing period as common length and equal a '
            'reference run cut just before it; (b) contraction - sup-norm contraction factor <= 0.8, <= 12 variables, '
            'constants <= 1e3, tol >= 1e-8, default cap: must return normally; (c) names - every reserved name '
            '(keywords + builtins + math + k, enumerated completely) as a left-hand side must raise NameError with '
            'nothing solved; (d) decl - duplicate country/sector codes, __ in local names and sector codes, no/ambiguous '
            'supplier, cross-currency flow/supplier without external sector: error before any series exists; '
            'distinct = hash of case; non-trivial = every judged case')
    assumptions = ['OverflowError escaping from ** / exp is accepted as loud (ArithmeticError raised at once)',
                   'small caps may fail before the switch period; accepted',
                   'contraction class has no alias/derived rows (their rows have sup-norm 1)']
    required_counters = ('switch.failed_loud', 'switch.sweeps_checked', 'switch.state_after_failure_checked',
                         'contraction.solved', 'names.rejected', 'decl.rejected',
                         'switch.zero_tolerance_requested',
                         'decl.rejected_again_on_a_second_attempt',
                         'switch.failing_period_traced',
                         'reserved_token_in_expression.judged',
                         'decl.two_candidate_suppliers_one_built_without_F',
                         'decl.scratch_model_created_during_construction',
                         'decl.cross_currency_residual_supplier_without_external_sector')

    def n_cases(self, tier):
        self._names = all_reserved()
        self._nchunks = (len(self._names) + 39) // 40
        return self._nchunks + (300 if tier == 'quick' else 30000)

    def make_case(self, rng, idx, tier):
        if not hasattr(self, '_names'):
            self.n_cases(tier)
        if idx < self._nchunks:
            return {'kind': 'names', 'names': self._names[idx * 40:(idx + 1) * 40], 'chunk': idx,
                    'of': self._nchunks}
        m = idx % 10
        if m in (0, 1, 2, 3, 4):
            kind = rng.choice(sorted(SWITCH_KINDS))
            T = rng.randint(2, 8)
            return {'kind': 'switch', 'which': kind, 'maxtime': T,
                    # zero-tolerance cases stay benign for ever: the only question is exact solution or loud failure
                    'p': (T + 1) if m == 4 else rng.randint(1, T),
                    'cap': rng.choice([20, 50, 200, 400]) if m == 4 else rng.choice([0, 1, 2, 5, 11, 12, 20, 50]),
                    # incl. a requested tolerance of exactly 0 (an exact fixed point or a loud failure, nothing in between)
                    'tol': 0.0 if m == 4 else 10 ** rng.uniform(-10, -2),
                    'reduction': rng.random() < 0.5, 'stepwise': rng.random() < 0.4, 'with_lag': rng.random() < 0.75,
                    'trace_failing_period': m == 3}
        if m in (5, 6, 7):
            n = rng.randint(1, 12)
            spec = G.gen_affine(rng, n_simul=n, rho=rng.choice([0.8, 0.8, 0.79, 0.5, 0.2]), tol=None,
                                aliases=False, decos=False, ics=rng.random() < 0.3,
                                const_scale=rng.choice([1.0, 100.0, 1e3]), maxtime=rng.randint(1, 6))
            if rng.random() < 0.4:
                # adversarial: full positive rows at exactly the factor
                rho = spec['rho']
                xs = [s['name'] for s in spec['simul']]
                for s in spec['simul']:
                    keep = {k_: v for k_, v in s['coef'].items() if k_ not in xs}
                    s['coef'] = dict(keep)
                    for x in xs:
                        s['coef'][x] = float('%.6g' % (rho / len(xs) * 0.999))
            tol = 10 ** rng.uniform(-8, -2)
            if rng.random() < 0.25 and spec['rho'] <= 0.5:
                # non-linear contraction: each added term has Lipschitz constant <= 0.1, row sums stay <= 0.8
                G.add_nonlinear(rng, spec)
            # one variable passes through a counting identity so that the sweeps needed are observed
            x0 = spec['simul'][0]
            tgt = sorted(x0['coef'])[0] if x0['coef'] else None
            text = G.render(spec)
            return {'kind': 'contraction', 'spec': spec, 'text': text, 'tol': tol,
                    'reduction': rng.random() < 0.5}
        if m == 8 and (idx // 10) % 2 == 0:
            # an unrelated scratch Model (sometimes with a country and a sector) is created at some point while the ill-formed
            # model is being put together: it must be refused all the same
            return {'kind': 'decl', 'which': ['two_suppliers', 'xsupplier_no_ext', 'no_supplier', 'xflow_no_ext'][(idx // 20) % 4],
                    'n_extra': rng.randint(0, 2), 'scratch_sweep': True}
        if m == 9 and (idx // 10) % 3 == 1:
            return {'kind': 'decl', 'which': 'xsupplier_no_ext', 'n_extra': rng.randint(0, 2), 'foreign_supplier_is_the_residual_one': True}
        if m == 9 and (idx // 10) % 3 == 0:
            # two candidate suppliers, one of them built with has_F=False (constructor arguments away from their defaults)
            return {'kind': 'decl', 'which': 'two_suppliers_one_without_F', 'n_extra': rng.randint(0, 2)}
        return {'kind': 'decl', 'which': rng.choice(['dup_country', 'dup_sector', 'dunder_local', 'dunder_sector',
                                                      'no_supplier', 'two_suppliers', 'xflow_no_ext',
                                                      'xsupplier_no_ext', 'dunder_local_late']),
                'n_extra': rng.randint(0, 2)}

    # ------------------------------------------------------------------------------------------
    def run_case(self, case):
        if case.get('scratch_sweep'):
            # the scratch model is created right before the object that makes the model ill-formed (and, for the two-country
            # cases, right after its country), with 0..13 objects of its own: whatever identifiers those objects take, the model
            # under construction must be refused
            out = None
            for after in (8, 9):
                for n_obj in range(0, 14):
                    res = self.run_decl(dict(case, scratch_model_after=after, scratch_objects=n_obj))
                    if out is None:
                        out = res
                    else:
                        for k_, v_ in res.get('counters', {}).items():
                            out['counters'][k_] = out['counters'].get(k_, 0) + v_
                    if res['verdict'] == 'violated':
                        res['counters'] = out['counters']
                        for v_ in res['violations']:
                            v_['detail']['scratch_model'] = {'created_after_declaration': after, 'objects_in_it': n_obj}
                        return res
            out['evals'] = 28
            return out
        return getattr(self, 'run_' + case['kind'])(case)

    def run_names(self, case):
        from sfc_models.equation_solver import EquationSolver
        rec = monitors.Recorder()
        for nm in case['names']:
            texts = ('%s = 1.0\ny = 2\nMaxTime = 2' % nm, 'y = 2\n%s = y + 1\nMaxTime = 2' % nm,
                     'y = 2\nMaxTime = 2\nexogenous\n%s = [1.0]*5' % nm)
            for ti, text in enumerate(texts):
                for how in ('default', 'ctor_noreduction', 'attr_noreduction', 'ctor_text'):
                    if ti == 2 and how in ('attr_noreduction', 'ctor_text'):
                        continue
                    outcome = 'returned'
                    s = None
                    try:
                        with contextlib.redirect_stdout(io.StringIO()):
                            if how == 'ctor_text':
                                s = EquationSolver(text, run_equation_reduction=False)
                            else:
                                s = EquationSolver() if how == 'default' else EquationSolver(run_equation_reduction=False)
                                if how == 'attr_noreduction':
                                    s = EquationSolver()
                                    s.RunEquationReduction = False
                                s.ParseString(text)
                            s.SolveEquation()
                    except Exception as e:
                        # "rejected with an error": the repository raises NameError; any exception is a rejection
                        outcome = type(e).__name__
                    n_series = len(s.TimeSeries) if s is not None else 0
                    if outcome != 'returned' and n_series == 0:
                        rec.count('names.rejected')
                    else:
                        rec.violate('reserved_name_not_rejected', {'name': nm, 'outcome': outcome, 'configured': how,
                                                                   'text': text, 'n_series': n_series})
        # reserved words and builtins USED inside an expression (not first in the block, not in the first equation): they would
        # shadow nothing but silently bring Python objects into the model - the package refuses them as well
        for tok in ('True', 'False', 'None', 'int', 'bool', 'len', 'list', 'range', 'eval', 'open', 'id', 'type', 'str')[case['chunk'] % 3::3]:
            for text in ('y = 2\nx = 0.5*y + %s\nMaxTime = 2' % tok, 'y = 2\nw = y + 1\nx = w*2 + y\nz = x + %s(2.7)\nMaxTime = 2' % tok):
                outcome, s = 'returned', None
                try:
                    with contextlib.redirect_stdout(io.StringIO()):
                        s = EquationSolver(run_equation_reduction=(case['chunk'] % 2 == 0))
                        s.ParseString(text)
                        s.SolveEquation()
                except Exception as e:
                    outcome = type(e).__name__
                n_series = len(s.TimeSeries) if s is not None else 0
                rec.count('reserved_token_in_expression.judged')
                if outcome == 'returned':
                    rec.violate('reserved_name_not_rejected', {'token_used_in_expression': tok, 'text': text, 'n_series': n_series})
        return {'verdict': 'violated' if rec.violations else 'held', 'nontrivial': True,
                'evals': 10 * len(case['names']), 'keys': ['name:' + n for n in case['names']], 'shape': 'names',
                'counters': rec.counters, 'violations': rec.violations,
                'obs': {'chunk': case['chunk'], 'of': case['of'], 'first': case['names'][:5]}}

    # ------------------------------------------------------------------------------------------
    def build_switch(self, case, T=None):
        eqs, benign, hostile, persistent = SWITCH_KINDS[case['which']]
        T = case['maxtime'] if T is None else T
        p = case['p']
        A = [benign if k < p else hostile for k in range(case['maxtime'] + 1)]
        if case.get('with_lag', True):
            # lagged and derived variables ride along: their series must stay in step with the others after a failure
            eqs = eqs + '\nLAG_x = x(k-1)\nzz = 0.25*LAG_x + 1\nww = 2*zz'
        text = '%s\nMaxTime = %d\nexogenous\nA = %r' % (eqs, T, A)
        return text, persistent

    def make_solver(self, case, text, counts):
        from sfc_models.equation_solver import EquationSolver
        cap = case['cap']

        def cnt(x, k):
            key = int(k)
            counts[key] = counts.get(key, 0) + 1
            if counts[key] > cap + 1:
                raise SweepBudgetExceeded()
            return x

        def boom(a):
            if a:
                raise ZeroDivisionError('failpoint')
            return 0.0

        def boomv(a):
            if a:
                raise ValueError('failpoint')
            return 0.0
        s = EquationSolver(run_equation_reduction=case['reduction'])
        s.AddFunction('cnt', cnt)
        s.AddFunction('boom', boom)
        s.AddFunction('boomv', boomv)
        s.MaxIterations = cap
        s.ParameterErrorTolerance = case['tol']
        if case.get('trace_failing_period'):
            s.TraceStep = case['p']          # the diagnostic option points at the very period that cannot be solved
        s.ParseString(text)
        return s

    def drive(self, s, case, T):
        from sfc_models.equation_solver import ConvergenceError
        failed_at = None
        outcome = 'returned'
        err = ''
        try:
            with contextlib.redirect_stdout(io.StringIO()):
                if case['stepwise']:
                    s.ExtractVariableList()
                    s.SetInitialConditions()
                    for step in range(1, T + 1):
                        failed_at = step
                        s.SolveStep(step)
                    failed_at = None
                else:
                    s.SolveEquation()
        except SweepBudgetExceeded:
            outcome = 'SWEEP_BUDGET'
        except ConvergenceError as e:
            outcome, err = 'ConvergenceError', str(e)
        except ValueError as e:
            outcome, err = 'ValueError', str(e)
        except ArithmeticError as e:
            outcome, err = type(e).__name__, str(e)
        except Exception as e:
            outcome, err = 'OTHER:' + type(e).__name__, str(e)
        return outcome, err, failed_at

    def run_switch(self, case):
        rec = monitors.Recorder()
        text, persistent = self.build_switch(case)
        counts = {}
        T = case['maxtime']
        s = self.make_solver(case, text, counts)
        outcome, err, failed_at = self.drive(s, case, T)
        shape = 'switch|' + case['which']
        obs = {'outcome': outcome, 'err': err[:80], 'sweeps_per_period': dict(sorted(counts.items())),
               'cap': case['cap'], 'p': case['p']}
        if outcome == 'SWEEP_BUDGET':
            rec.violate('more_than_cap_plus_one_sweeps', {'case': case, 'sweeps': counts})
            return {'verdict': 'violated', 'shape': shape, 'counters': rec.counters, 'violations': rec.violations,
                    'obs': obs, 'nontrivial': True}
        if outcome.startswith('OTHER:'):
            rec.violate('unexpected_exception_type', {'case': case, 'outcome': outcome, 'err': err[:300]})
            return {'verdict': 'violated', 'shape': shape, 'counters': rec.counters, 'violations': rec.violations,
                    'obs': obs, 'nontrivial': True}
        rec.count('switch.sweeps_checked', len(counts))
        if case['tol'] == 0.0:
            rec.count('switch.zero_tolerance_requested')
        if case.get('trace_failing_period'):
            rec.count('switch.failing_period_traced')
        ts = dict(s.TimeSeries)
        exo = {'A', 'k'}
        if outcome == 'returned':
            rec.count('switch.returned')
            if persistent and case['p'] <= T:
                rec.violate('persistent_evaluation_error_reported_as_solved', {'case': case, 'text': text})
            else:
                blk = B.split_block(text)
                funcs = {'cnt': lambda x, k: x, 'boom': lambda a: 0.0, 'boomv': lambda a: 0.0}
                viol, stats = B.check_solution(blk, ts, case['tol'], funcs=funcs)
                for v in viol[:3]:
                    v['detail']['text'] = text
                    v['detail']['case'] = {k_: case[k_] for k_ in ('which', 'cap', 'tol', 'p')}
                    rec.violate('unsolved_period_reported_as_solved:' + v['kind'], v['detail'],
                                mechanism='diverged_reported_solved')
        else:
            rec.count('switch.failed_loud')
            lens = {n: len(v) for n, v in ts.items() if n not in exo}
            common = set(lens.values())
            f = None
            if len(common) != 1:
                rec.violate('series_of_unequal_length_after_failure', {'lengths': lens, 'case': case, 'outcome': outcome})
            else:
                f = common.pop()     # number of stored points = failing period index
                if failed_at is not None and f != failed_at:
                    rec.violate('partial_results_appended_before_raise', {'failed_step': failed_at, 'lengths': lens})
                elif f >= 2:
                    # reference: same system, horizon f-1, no cap problems before => same series
                    ref_case = dict(case)
                    counts2 = {}
                    text2, _ = self.build_switch(case, T=f - 1)
                    s2 = self.make_solver(ref_case, text2, counts2)
                    o2, e2, _f2 = self.drive(s2, ref_case, f - 1)
                    if o2 == 'returned':
                        rec.count('switch.state_after_failure_checked')
                        for n in lens:
                            if repr(list(ts[n])) != repr(list(s2.TimeSeries[n])):
                                rec.violate('solved_periods_not_intact_after_failure',
                                            {'var': n, 'after_failure': list(ts[n]), 'reference': list(s2.TimeSeries[n]),
                                             'case': case})
                                break
                    else:
                        rec.count('switch.reference_failed')
                elif f == 1:
                    rec.count('switch.state_after_failure_checked')
                    # only the k=0 point may exist
            obs['failing_period'] = f
        return {'verdict': 'violated' if rec.violations else 'held', 'nontrivial': True, 'shape': shape,
                'counters': rec.counters, 'violations': rec.violations, 'obs': obs}

    # ------------------------------------------------------------------------------------------
    def run_contraction(self, case):
        from sfc_models.equation_solver import EquationSolver
        rec = monitors.Recorder()
        s = EquationSolver(run_equation_reduction=case['reduction'])
        s.ParameterErrorTolerance = case['tol']
        # default cap untouched; sweeps of the last period observed through the public step trace
        s.TraceStep = case['spec']['maxtime']
        outcome = 'returned'
        sweeps = None
        try:
            with contextlib.redirect_stdout(io.StringIO()):
                s.ParseString(case['text'])
                s.SolveEquation()
            sweeps = len(s.TimeSeriesStepTrace.get('iteration', []))
        except Exception as e:
            outcome = type(e).__name__ + ': ' + str(e)[:100]
        if outcome != 'returned':
            rec.violate('contraction_not_solved_within_default_cap',
                        {'outcome': outcome, 'rho': case['spec']['rho'], 'tol': case['tol'], 'text': case['text']})
        else:
            rec.count('contraction.solved')
        return {'verdict': 'violated' if rec.violations else 'held', 'nontrivial': True,
                'shape': 'contraction|rho=%s' % case['spec']['rho'], 'counters': rec.counters,
                'violations': rec.violations,
                'obs': {'rho': case['spec']['rho'], 'n': len(case['spec']['simul']), 'tol': case['tol'],
                        'outcome': outcome, 'sweeps_last_period': sweeps},
                'worst': {'sweeps_needed_by_a_contraction': sweeps}}

    # ------------------------------------------------------------------------------------------
    def run_decl(self, case):
        from sfc_models.models import Model, Country
        from sfc_models.sector import Sector, Market
        from sfc_models.sector_definitions import (Household, ConsolidatedGovernment, FixedMarginBusiness, TaxFlow)
        from sfc_models.utils import LogicError
        rec = monitors.Recorder()
        which = case['which']
        mod = Model()
        mod.MaxTime = 3
        outcome = 'returned'
        stage = 'construction'
        made = [0]

        def scratch():
            # called after every declaration; acts once, after the drawn number of declarations
            made[0] += 1
            if case.get('scratch_model_after') is not None and made[0] == case['scratch_model_after'] + 1:
                other = Model()
                if case.get('scratch_objects'):
                    oc = Country(other, 'ZZ', 'scratch', currency='ZZZ')
                    for i_ in range(case['scratch_objects'] - 1):
                        Sector(oc, 'S%d' % i_, 'scratch sector')
                rec.count('decl.scratch_model_created_during_construction')
        try:
            with contextlib.redirect_stdout(io.StringIO()):
                scratch()
                ca = Country(mod, 'CA', 'Canada', currency='CAD')
                scratch()
                gov = ConsolidatedGovernment(ca, 'GOV', 'Gov')
                scratch()
                hh = Household(ca, 'HH', 'HH')
                scratch()
                bus = FixedMarginBusiness(ca, 'BUS', 'Bus')
                scratch()
                tf = TaxFlow(ca, 'TF', 'tf', taxrate=0.2)
                scratch()
                lab = Market(ca, 'LAB', 'lab')
                scratch()
                good = Market(ca, 'GOOD', 'good')
                scratch()
                gov.SetExogenous('DEM_GOOD', '[20.]*10')
                for i in range(case['n_extra']):
                    Sector(ca, 'XTRA%d' % i, 'extra')
                if which == 'dup_country':
                    Country(mod, 'CA', 'Other Canada', currency='USD')
                elif which == 'dup_sector':
                    Household(ca, 'HH', 'second household')
                elif which == 'dunder_local':
                    hh.AddVariable('MY__VAR', 'bad', '1.0')
                elif which == 'dunder_local_late':
                    hh.AddVariable('GOOD__X', 'bad', '1.0')
                elif which == 'dunder_sector':
                    Sector(ca, 'BAD__CODE', 'bad code').AddVariable('X', 'x', '1.0')
                elif which == 'no_supplier':
                    Market(ca, 'WIDGET', 'no supplier')
                    hh.AddVariable('DEM_WIDGET', 'demand', '1.0')
                elif which == 'two_suppliers':
                    scratch()
                    s2 = Sector(ca, 'BUS2', 'second supplier')
                    s2.AddVariable('SUP_GOOD', 'supply', '')
                elif which == 'two_suppliers_one_without_F':
                    s2 = Sector(ca, 'BUS2', 'second supplier, holds no financial assets', has_F=False)
                    s2.AddVariable('SUP_GOOD', 'supply', '')
                    rec.count('decl.two_candidate_suppliers_one_built_without_F')
                elif which in ('xflow_no_ext', 'xsupplier_no_ext'):
                    scratch()
                    us = Country(mod, 'US', 'US', currency='USD')
                    scratch()
                    gov2 = ConsolidatedGovernment(us, 'GOV', 'Gov')
                    hh2 = Household(us, 'HH', 'HH')
                    bus2 = FixedMarginBusiness(us, 'BUS', 'Bus')
                    TaxFlow(us, 'TF', 'tf', taxrate=0.2)
                    Market(us, 'LAB', 'lab')
                    good2 = Market(us, 'GOOD', 'good')
                    gov2.SetExogenous('DEM_GOOD', '[20.]*10')
                    if which == 'xflow_no_ext':
                        hh.AddVariable('GIFT', 'gift', '2.0')
                        mod.RegisterCashFlow(hh, hh2, 'GIFT')
                    elif case.get('foreign_supplier_is_the_residual_one'):
                        # the supplier abroad is the RESIDUAL supplier (no supply function of its own), the domestic one has a rule
                        good.AddSupplier(bus, '0.1*' + hh.GetVariableName('INC'))
                        good.AddSupplier(bus2)
                        bus2.AddVariable('SUP_CA_GOOD', 'exports', '')
                        rec.count('decl.cross_currency_residual_supplier_without_external_sector')
                    else:
                        good.AddSupplier(bus2, '0.1*' + hh.GetVariableName('INC'))
                        good.AddSupplier(bus)
                        bus2.AddVariable('SUP_CA_GOOD', 'exports', '')
                stage = 'main'
                mod.main()
        except Exception as e:
            outcome = type(e).__name__          # LogicError / ValueError today; any exception is a rejection
        n_series = len(mod.EquationSolver.TimeSeries)
        if outcome != 'returned' and n_series == 0:
            rec.count('decl.rejected')
            if stage == 'main':
                # a caller who catches the rejection and calls main() again on the same objects is rejected again,
                # every time, still without series
                for attempt in (2, 3):
                    again = 'returned'
                    try:
                        with contextlib.redirect_stdout(io.StringIO()):
                            mod.main()
                    except Exception as e:
                        again = type(e).__name__
                    rec.count('decl.rejected_again_on_a_second_attempt')
                    if again == 'returned' or len(mod.EquationSolver.TimeSeries) != 0:
                        rec.violate('ill_formed_declaration_accepted_on_a_later_attempt',
                                    {'which': which, 'attempt': attempt, 'outcome': again,
                                     'n_series': len(mod.EquationSolver.TimeSeries)})
                        break
        else:
            rec.violate('ill_formed_declaration_not_rejected', {'which': which, 'outcome': outcome, 'stage': stage,
                                                                'n_series': n_series})
        return {'verdict': 'violated' if rec.violations else 'held', 'nontrivial': True, 'shape': 'decl|' + which,
                'counters': rec.counters, 'violations': rec.violations,
                'obs': {'which': which, 'outcome': outcome, 'stage': stage}}


PROP = C11()
