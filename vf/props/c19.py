"""C19 - tab-delimited output is a faithful table of the results."""
import contextlib
import io
import random

from vf import monitors
from vf.gen import eqsys as G
from vf.runner import chash

BATCH = 100
FORMATS = ['%.5g', '%f', '%.12e', '%r', '%s', '%d', '%10.3f', '%+.3e', '%.17g', '%g', '%.0f']
PREC = {'%.5g': 1e-4, '%.12e': 1e-11, '%+.3e': 1e-2, '%.17g': 0.0, '%r': 0.0, '%s': 0.0, '%g': 1e-5}
NAMEPOOL = ['x', 'y', 'HH__F', 'GOV__T', 'a', 'B', '_z', 'Zed', 'k1', 'tt', 'T', 'K', 'alpha', 'HH__INC', 'x10', 'x2',
            'iteration_', 'it', 'z' * 30, 'CA_HH__F', 'US_HH__F', 'b', 'c', 'd', 'e1', 'f', 'g', 'h', 'i', 'j',
            'l', 'm', 'n', 'o', 'p', 'q', 'r', 's', 'u', 'v', 'w']


def gen_holder(rng):
    n = rng.choice([0, 1, 2, 3, 5, 8, 15, 40])
    names = rng.sample(NAMEPOOL, min(n, len(NAMEPOOL)))
    pri = [p for p in monitors.PRIORITY if rng.random() < 0.5]
    names = names + pri
    rng.shuffle(names)
    base = rng.choice([0, 1, 2, 5, 12])
    ragged = rng.random() < 0.5
    fmt = rng.choice(FORMATS)
    data = {}
    for nm in names:
        ln = base + (rng.randint(0, 3) if ragged else 0)
        if ragged and rng.random() < 0.1:
            ln = 0
        vals = []
        for _ in range(ln):
            r = rng.random()
            if r < 0.2:
                v = rng.randint(-1000, 1000)
            elif r < 0.5:
                v = rng.uniform(-100, 100)
            elif r < 0.6:
                v = rng.uniform(-1, 1) * 10 ** rng.randint(-300, 300)
            elif r < 0.7:
                v = float(rng.randint(-5, 5))
            elif r < 0.75:
                v = 0.0 if rng.random() < 0.5 else -0.0
            elif r < 0.78 and fmt != '%d':
                v = rng.choice([float('inf'), float('-inf'), float('nan')])
            else:
                v = rng.uniform(0, 1e6)
            if fmt == '%d' and isinstance(v, float) and abs(v) > 1e18:
                v = rng.uniform(-1e6, 1e6)
            vals.append(v)
        data[nm] = vals
    return {'names': names, 'data': data, 'fmt': fmt}


class C19(object):
    id = 'C19'
    anchors = ('TimeSeriesHolder.GetSeriesList', 'TimeSeriesHolder.GenerateCSVtext', 'EquationSolver.GenerateCSVtext')
    title = 'Tab-delimited output is a faithful table of the results'
    rule = ('cases are batches of %d synthetic TimeSeriesHolder objects (0-40 names incl. any subset of the priority '
            'names, ragged lengths incl. 0, ints/floats of any magnitude and sign incl. inf/nan, 11 format strings) '
            'rendered by the real GenerateCSVtext and compared cell by cell with a reference renderer, plus '
            'parse-back to the precision of the format; and real solves of random systems whose table must have '
            'exactly horizon+1 data rows and name every series once; distinct = hash of holder / system; non-trivial = '
            '>= 2 series and >= 1 data row' % BATCH)
    assumptions = ['priority order (iteration, iteration_error, iteration_abs_change, k, t) is the documented one',
                   "the table is compared structurally (lines split on newline, cells on tab), not byte for byte"]
    required_counters = ('synthetic.judged', 'solve.judged', 'cells.compared', 'synthetic.rerendered_after_dict_op', 'model.judged',
                         'solve.horizon_set_on_solver',
                         'logfile.judged',
                         'logfile.after_a_model_that_failed_inside_main',
                         'table_after_failed_series_lookups.judged',
                         'logfile.with_retrieval_options_set_before_main',
                         'logfile.with_warnings_escalated_to_errors',
                         'logfile.with_the_main_log_registered_by_the_user_beforehand')

    def n_cases(self, tier):
        return 40 if tier == 'quick' else 4000

    def make_case(self, rng, idx, tier):
        if idx % 16 == 15:
            from vf.gen import modelspec as M
            return {'kind': 'model', 'mspec': M.gen_spec(rng, n_zones=rng.choice([1, 2]), maxtime=rng.randint(1, 5)),
                    'fmt': rng.choice(['%.5g', '%r'])}
        if idx % 16 == 7:
            # the table as written to the 'timeseries' log file of Model.main(base): another model in the same process has
            # just FAILED inside its own main(base_a); then this model runs with main(base_b)
            return {'kind': 'logfile', 'builder': rng.choice(['SIM', 'SIMEX1', 'PC']), 'maxtime': rng.randint(2, 12),
                    'failed_first': ['ConvergenceError', 'refused', None][(idx // 16) % 3],
                    # the retrieval options of Model.GetTimeSeries are set BEFORE main(): they concern what callers plot, not the table
                    'retrieval_options_set_before_main': (idx // 16) % 2 == 0,
                    'warnings_are_errors': (idx // 16) % 2 == 1,
                    # the user registered the main log under a name of his own before calling main(base)
                    'main_log_preregistered': (idx // 16) % 3 == 2}
        if idx % 4 == 3:
            spec = G.gen_affine(rng, rho=rng.choice([0.2, 0.5]), tol=1e-8)
            case = {'kind': 'solve', 'spec': spec, 'text': G.render(spec), 'fmt': rng.choice(['%.5g', '%.12e', '%r']),
                    'reduction': rng.random() < 0.5, 'solver_horizon': None, 'probe_missing': (idx // 8) % 2 == 1}
            if (idx // 4) % 2 == 0:
                # the horizon is set on the solver (as Model does); the block's own MaxTime line says something else
                case['solver_horizon'] = rng.choice([0, 0, 1, 2, spec['maxtime']])
            return case
        return {'kind': 'batch', 'bseed': rng.getrandbits(48), 'n': BATCH}

    def judge_table(self, holder_dict, fmt, text, rec, ctx):
        h, rows = monitors.reference_table(holder_dict, fmt)
        gh, grows = monitors.parse_table(text)
        if gh != h:
            kind = 'header_wrong'
            if sorted(gh) == sorted(h):
                kind = 'header_order_wrong'
            rec.violate(kind, dict(ctx, got=gh[:20], expected=h[:20]))
            return False
        if len(grows) != len(rows):
            rec.violate('row_count_wrong', dict(ctx, got=len(grows), expected=len(rows)))
            return False
        for i, (gr, r) in enumerate(zip(grows, rows)):
            if gr != r:
                j = next((j for j in range(min(len(gr), len(r))) if gr[j] != r[j]), None)
                rec.violate('cell_wrong', dict(ctx, row=i, col=h[j] if j is not None else None, got=gr[:8],
                                               expected=r[:8]))
                return False
            rec.count('cells.compared', len(r))
        # parse-back
        tol = PREC.get(fmt)
        if tol is not None:
            for i, gr in enumerate(grows):
                for nm, cell in zip(h, gr):
                    v = holder_dict[nm][i]
                    try:
                        back = float(cell)
                    except ValueError:
                        rec.violate('cell_unparseable', dict(ctx, cell=cell, value=repr(v)))
                        return False
                    if v != v:
                        ok = back != back
                    elif v in (float('inf'), float('-inf')):
                        ok = back == v
                    else:
                        ok = abs(back - v) <= tol * abs(v) + (0 if tol == 0 else 1e-300)
                    rec.count('cells.parsed_back')
                    if not ok:
                        rec.violate('parse_back_lost_precision', dict(ctx, cell=cell, value=repr(v)))
                        return False
        return True

    def run_case(self, case):
        from sfc_models.utils import TimeSeriesHolder
        rec = monitors.Recorder()
        if case['kind'] == 'batch':
            rng = random.Random(case['bseed'])
            keys = []
            obs = None
            for _ in range(case['n']):
                hd = gen_holder(rng)
                th = TimeSeriesHolder(rng.choice(['k', 'iteration']))
                for nm in hd['names']:
                    th[nm] = list(hd['data'][nm])
                try:
                    text = th.GenerateCSVtext(hd['fmt'])
                except Exception as e:
                    rec.violate('render_raised', {'holder': hd, 'err': repr(e)})
                    continue
                rec.count('synthetic.judged')
                ok = self.judge_table(hd['data'], hd['fmt'], text, rec, {'fmt': hd['fmt'], 'names': hd['names'][:10]})
                # the holder is a dict: change what is stored through ordinary dict operations and render again
                for step in range(rng.choice([0, 1, 2, 3]) if ok else 0):
                    how = rng.choice(['update', 'setdefault', 'pop', 'del', 'append', 'setitem', 'ior', 'popitem',
                                      'clear_refill'])
                    new_name = rng.choice(NAMEPOOL + list(monitors.PRIORITY))
                    vals = [float(rng.randint(-9, 9)) for _ in range(rng.randint(1, 4))]
                    try:
                        if how == 'update':
                            th.update({new_name: vals})
                        elif how == 'setdefault':
                            th.setdefault(new_name, vals)
                        elif how == 'pop' and len(th):
                            th.pop(rng.choice(sorted(th.keys())))
                        elif how == 'del' and len(th):
                            del th[rng.choice(sorted(th.keys()))]
                        elif how == 'append':
                            th.AppendValue(new_name, vals[0])
                        elif how == 'setitem':
                            th[new_name] = vals
                        elif how == 'ior':
                            th |= {new_name: vals}
                        elif how == 'popitem' and len(th):
                            th.popitem()
                        elif how == 'clear_refill':
                            th.clear()
                            th[new_name] = vals
                        text = th.GenerateCSVtext(hd['fmt'])
                    except Exception as e:
                        rec.violate('render_raised_after_dict_operation', {'op': how, 'err': repr(e),
                                                                           'names': sorted(th.keys())[:10]})
                        break
                    rec.count('synthetic.rerendered_after_dict_op')
                    if not self.judge_table(dict(th), hd['fmt'], text, rec,
                                            {'fmt': hd['fmt'], 'after_dict_operation': how, 'names': sorted(th.keys())[:12]}):
                        break
                if len(hd['names']) >= 2 and min(len(v) for v in hd['data'].values()) >= 1:
                    keys.append(chash([hd['names'], hd['fmt'], repr(hd['data'])]))
                if obs is None and hd['names']:
                    obs = {'names': hd['names'], 'fmt': hd['fmt'], 'text_head': text[:300]}
            return {'verdict': 'violated' if rec.violations else 'held', 'nontrivial': bool(keys),
                    'evals': case['n'], 'keys': keys, 'shape': 'synthetic', 'counters': rec.counters,
                    'violations': rec.violations, 'obs': obs}
        if case['kind'] == 'logfile':
            import os, shutil, tempfile
            from vf import ambient
            from sfc_models.models import Model, Country
            from sfc_models.sector import Market
            from sfc_models.sector_definitions import Household
            from sfc_models.utils import Logger
            tmp = tempfile.mkdtemp(prefix='vf_c19_')
            try:
                base_a, base_b = os.path.join(tmp, 'model_a'), os.path.join(tmp, 'model_b')
                with contextlib.redirect_stdout(io.StringIO()):
                    if case['failed_first'] == 'ConvergenceError':
                        ba = ambient.book_builders()['SIM'](country_code='AA')
                        ma = ba.build_model()
                        ma.MaxTime = 5
                        ma.EquationSolver.MaxIterations = 2
                        try:
                            ma.main(base_a)
                        except Exception:
                            rec.count('logfile.after_a_model_that_failed_inside_main')
                    elif case['failed_first'] == 'refused':
                        ma = Model()
                        ca_ = Country(ma, 'FF', 'refused')
                        Household(ca_, 'HH', 'hh')
                        Market(ca_, 'GOOD', 'no supplier')
                        try:
                            ma.main(base_a)
                        except Exception:
                            rec.count('logfile.after_a_model_that_failed_inside_main')
                    bb = ambient.book_builders()[case['builder']](country_code='BB')
                    mb = bb.build_model()
                    mb.MaxTime = case['maxtime']
                    if case.get('main_log_preregistered'):
                        Logger.register_log(os.path.join(tmp, 'my_own_log.txt'), 'log')
                        rec.count('logfile.with_the_main_log_registered_by_the_user_beforehand')
                    if case.get('retrieval_options_set_before_main'):
                        mb.TimeSeriesSupressTimeZero = True
                        mb.TimeSeriesCutoff = 1
                        rec.count('logfile.with_retrieval_options_set_before_main')
                    try:
                        if case.get('warnings_are_errors'):
                            # the process escalates warnings (python -W error): nothing in a clean model run warrants one
                            import warnings as _w
                            with _w.catch_warnings():
                                _w.simplefilter('error')
                                mb.main(base_b)
                            rec.count('logfile.with_warnings_escalated_to_errors')
                        else:
                            mb.main(base_b)
                    except Exception as e:
                        return {'verdict': 'notjudged', 'shape': 'logfile|' + type(e).__name__}
                    finally:
                        try:
                            Logger.cleanup()
                        except Exception:
                            pass
                out_b = base_b + '_out.txt'
                rec.count('logfile.judged')
                if not os.path.exists(out_b):
                    rec.violate('table_of_this_model_not_written_to_its_own_log_file',
                                {'expected_file': os.path.basename(out_b), 'files': sorted(os.listdir(tmp)), 'failed_first': case['failed_first']})
                else:
                    text = open(out_b).read()
                    gh, grows = monitors.parse_table(text)
                    solver = mb.EquationSolver
                    if len(grows) != case['maxtime'] + 1:
                        rec.violate('rows_not_horizon_plus_one', {'rows': len(grows), 'horizon': case['maxtime'], 'file': os.path.basename(out_b),
                                                                 'failed_first': case['failed_first']})
                    elif sorted(gh) != sorted(solver.TimeSeries.keys()) or len(set(gh)) != len(gh):
                        rec.violate('series_not_named_once', {'header': gh[:20], 'file': os.path.basename(out_b)})
                    else:
                        self.judge_table(dict(solver.TimeSeries), '%.5g', text, rec, {'fmt': '%.5g', 'log_file': True})
                    if case['failed_first'] and os.path.exists(base_a + '_out.txt'):
                        ga, ra = monitors.parse_table(open(base_a + '_out.txt').read())
                        if any(n.startswith('BB_') or n in solver.TimeSeries and n not in ('k', 't') for n in ga) and len(ra) > 1:
                            rec.violate('table_of_this_model_written_into_another_models_log_file', {'header': ga[:10], 'rows': len(ra)})
            finally:
                shutil.rmtree(tmp, ignore_errors=True)
            return {'verdict': 'violated' if rec.violations else 'held', 'nontrivial': True, 'shape': 'logfile|' + str(case['failed_first']),
                    'counters': rec.counters, 'violations': rec.violations, 'obs': {'builder': case['builder'], 'horizon': case['maxtime']}}
        if case['kind'] == 'model':
            from vf.gen import modelspec as M
            b = M.build(case['mspec'])
            if b.error is not None:
                return {'verdict': 'notjudged', 'shape': 'model|' + type(b.error).__name__}
            solver = b.model.EquationSolver
            stored = sorted(solver.TimeSeries.keys())
            # the caller probes an optional series (or mistypes a name) before asking for the table
            for probe in (lambda: b.model.GetTimeSeries('NO_SUCH__SERIES'), lambda: solver.TimeSeries['optional_x'],
                          lambda: b.model.GetTimeSeries('HH__NOPE', cutoff=2)):
                try:
                    probe()
                except Exception:
                    pass
            rec.count('table_after_failed_series_lookups.judged')
            text = solver.GenerateCSVtext(case['fmt'])
            rec.count('solve.judged')
            rec.count('model.judged')
            if sorted(monitors.parse_table(text)[0]) != stored:
                rec.violate('series_not_named_once', {'series_stored_by_the_solve': stored[:12], 'header': monitors.parse_table(text)[0][:12],
                                                      'history': 'names that do not exist were looked up (and the errors caught) before the table was generated'})
            gh, grows = monitors.parse_table(text)
            horizon = case['mspec']['maxtime']
            if len(grows) != horizon + 1:
                rec.violate('rows_not_horizon_plus_one', {'rows': len(grows), 'horizon': horizon})
            if sorted(gh) != sorted(solver.TimeSeries.keys()) or len(set(gh)) != len(gh):
                rec.violate('series_not_named_once', {'header': gh[:20]})
            self.judge_table(dict(solver.TimeSeries), case['fmt'], text, rec, {'fmt': case['fmt'], 'model': True})
            return {'verdict': 'violated' if rec.violations else 'held', 'nontrivial': True, 'shape': 'model',
                    'counters': rec.counters, 'violations': rec.violations,
                    'obs': {'header': gh[:8], 'rows': len(grows), 'horizon': horizon, 'n_series': len(gh)}}
        # real solve
        from sfc_models.equation_solver import EquationSolver
        solver = EquationSolver(run_equation_reduction=case['reduction'])
        solver.MaxIterations = 3000
        if case.get('solver_horizon') is not None and case['solver_horizon'] <= case['spec']['maxtime']:
            solver.MaxTime = case['solver_horizon']
            rec.count('solve.horizon_set_on_solver')
        try:
            with contextlib.redirect_stdout(io.StringIO()):
                solver.ParseString(case['text'])
                solver.SolveEquation()
        except ValueError as e:
            return {'verdict': 'notjudged', 'shape': 'solve|' + type(e).__name__, 'counters': rec.counters}
        stored = sorted(solver.TimeSeries.keys())
        if case.get('probe_missing'):
            for nm in ('optional_x', 'LAG_nope', 'K'):
                try:
                    solver.TimeSeries[nm]
                except Exception:
                    pass
            rec.count('table_after_failed_series_lookups.judged')
        text = solver.GenerateCSVtext(case['fmt'])
        rec.count('solve.judged')
        gh, grows = monitors.parse_table(text)
        if sorted(gh) != stored:
            rec.violate('series_not_named_once', {'series_stored_by_the_solve': stored, 'header': gh,
                                                  'failed_lookups_before_the_table': bool(case.get('probe_missing'))})
        horizon = case['spec']['maxtime']
        if case.get('solver_horizon') is not None and case['solver_horizon'] <= horizon:
            horizon = case['solver_horizon']
        if len(grows) != horizon + 1:
            rec.violate('rows_not_horizon_plus_one', {'rows': len(grows), 'horizon': horizon, 'block': case['text'],
                                                      'horizon_set_on_solver': case.get('solver_horizon')})
        if sorted(gh) != sorted(solver.TimeSeries.keys()) or len(set(gh)) != len(gh):
            rec.violate('series_not_named_once', {'header': gh, 'series': sorted(solver.TimeSeries.keys())})
        self.judge_table(dict(solver.TimeSeries), case['fmt'], text, rec, {'fmt': case['fmt'], 'solve': True})
        return {'verdict': 'violated' if rec.violations else 'held', 'nontrivial': True, 'shape': 'solve',
                'counters': rec.counters, 'violations': rec.violations,
                'obs': {'header': gh[:12], 'rows': len(grows), 'horizon': horizon}}


PROP = C19()
