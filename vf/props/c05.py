"""C05 - generated system is closed, canonical and free of placeholder names."""
import contextlib
import io
import math
import random
import re
import zlib

from vf import monitors
from vf.gen import modelspec as M
from vf.oracle import block as B

PLACEHOLDER = re.compile(r'(?<![A-Za-z0-9_])_\d+__[A-Za-z_0-9]*')
PERMITTED = set(['max', 'min', 'abs', 'float', 'sum', 'pow', 'round', 'k'] + [n for n in dir(math) if not n.startswith('_')])
EMBED_LOCALS = ['F', 'INC', 'T', 'AfterTax', 'LAG_F', 'DEM_GOOD', 'SUP_LAB', 'AlphaIncome', 'TaxRate', 'PROF', 'DEM_LAB']


class _Val(float):
    def __call__(self, *a):
        return _Val(float(self) * 0.5 + 0.125)


def valuation(names, salt):
    env = {}
    for n in names:
        env[n] = _Val(1.0 + (zlib.crc32((n + str(salt)).encode()) % 1024) / 1024.0)
    return env


def ev(src, env):
    g = {'__builtins__': {}, 'max': max, 'min': min, 'abs': abs, 'float': float, 'pow': pow, 'sum': sum,
         'round': round}
    for n in dir(math):
        if not n.startswith('_'):
            g[n] = getattr(math, n)
    return eval(src, g, env)


class C05(object):
    id = 'C05'
    anchors = ('Sector.GetVariableName', 'Model._FixAliases', 'Sector._CreateFinalEquations', 'Model._CreateFinalEquations', 'Model._RegisterAlias')
    title = 'Generated system is closed, canonical and free of placeholder names'
    rule = ('one case = one random model specification plus a placeholder-embedding driver: K names are requested through '
            'GetVariableName before main() (placeholders; for half of the cases some after a manual '
            '_GenerateFullSectorCodes()) and embedded in extra equations of other sectors, of the same sector, in a '
            'model-level (global) equation, besides the names the spec itself embeds in supplier allocation and portfolio '
            'rules; after the real main() the emitted text is read by an independent splitter and (1) every left-hand side '
            'is <FullCode>__<local> with FullCode recomputed from country/sector codes and the country count, (2) the set '
            'of left-hand sides equals the object graph, each once, (3) every NAME on a right-hand side is defined, k or a '
            'permitted function, (4) no _<digits>__ token survives in any code part, (5) each emitted right-hand side has '
            'the value of its sector-local form under 3 valuations, and every embedded name evaluates to the variable it '
            'was requested for; distinct = hash of case; non-trivial = >= 1 placeholder embedded and model built')
    assumptions = ['sector/country codes whose concatenations collide (A + B_C vs A_B + C) are not generated',
                   'comments (free-text descriptions) are not scanned for placeholders']
    required_counters = ('models.judged', 'lhs.judged', 'rhs_names.judged', 'meaning.judged', 'embedded.judged',
                         'embedded.in_global_equation', 'placeholders.handed_out', 'embedded.form.term_product',
                         'embedded.form.term_ratio', 'embedded.form.string_rhs', 'embedded.form.exogenous', 'late_sector.declared',
                         'codes_generated_mid_construction', 'built_by_step_runner', 'cross_rates.requested_before_build', 'locals_named_like_math_symbols.declared',
                         'rebuilt_with_names_kept_from_before_first_build',
                         'equation_object_shared_by_sectors.declared',
                         'term_built_products_and_quotients_of_locals.declared',
                         'other_models_created_during_construction',
                         'sector_codes_ending_in_another_sectors_identifier.declared',
                         'single_placeholder_model.judged')

    def n_cases(self, tier):
        return 32 if tier == 'quick' else 1200

    def make_case(self, rng, idx, tier):
        nz = rng.choice([1, 1, 2, 2, 3])
        spec = M.gen_spec(rng, n_zones=nz, maxtime=2)
        return {'kind': 'closure', 'spec': spec, 'eseed': rng.getrandbits(30), 'n_embed': rng.randint(1, 6), 'idx': idx,
                'early_full_codes': rng.random() < 0.3, 'solve': idx % 4 == 0,
                # how the model is run: the real main(), the same passes by hand, the step-by-step runner the GUI uses
                # (_GetSteps/_RunAllSteps: fix-up passes before and after equation generation), or built, extended with
                # further equations that embed names handed out before the first build, and built again
                'mode': {1: 'steps', 3: 'rebuild', 6: 'steps', 8: 'rebuild'}.get(idx % 10, 'plain'),
                'codes_after_first_country': nz > 1 and rng.random() < 0.5}

    def run_case(self, case):
        rec = monitors.Recorder()
        spec = case['spec']
        shape = M.shape_of(spec)
        rng = random.Random(case['eseed'])
        # (idx % 4 == 1: unrelated Model objects - and a small second model - are created while this one is being put together)
        interleave = case.get('idx', 0) % 4 == 1 and not case.get('no_interleave')
        b = M.build(spec, solve=False, codes_after_first_country=case.get('codes_after_first_country', False),
                    ext_first=not case.get('codes_after_first_country', False), interleave_model=interleave)
        if interleave:
            rec.count('other_models_created_during_construction')
        if case.get('codes_after_first_country'):
            rec.count('codes_generated_mid_construction')
        if b.error is not None:
            if interleave:
                plain = M.build(spec, solve=False, codes_after_first_country=case.get('codes_after_first_country', False),
                                ext_first=not case.get('codes_after_first_country', False))
                if plain.error is None:
                    rec.violate('model_cannot_be_put_together_while_other_models_are_created',
                                {'err': repr(b.error)[:300], 'note': 'the same specification is put together without error when no other Model is created meanwhile'})
                    return {'verdict': 'violated', 'shape': shape, 'counters': rec.counters, 'violations': rec.violations}
            return {'verdict': 'notjudged', 'shape': shape + '|construction:' + type(b.error).__name__}
        mod = b.model
        handed = []       # (text handed out, target sector, target local)
        from sfc_models.sector import Sector
        orig_gvn = Sector.GetVariableName

        def gvn(self, varname):
            out = orig_gvn(self, varname)
            if PLACEHOLDER.match(out):
                handed.append((out, self, varname))
            return out
        # ---- embedding driver
        sectors = list(b.sectors.items())
        embedded = []     # (holder sector or None for global, new var name, target sector, target local, was_placeholder)
        Sector.GetVariableName = gvn
        try:
            if case['early_full_codes']:
                mod._GenerateFullSectorCodes()
            if case['early_full_codes']:
                # codes were generated mid-construction; a sector declared afterwards must still be canonical
                from sfc_models.sector import Sector as _S
                ck0, country0 = sorted(b.countries.items())[0]
                late = _S(country0, 'LATE', 'declared after the full codes were generated', has_F=False)
                late.AddVariable('X', 'a constant', '3.0')
                late.AddVariable('Y', 'uses a local name', 'X + 1.0')
                sectors.append(((ck0, 'LATE'), late))
                rec.count('late_sector.declared')
            if case.get('idx', 0) % 4 == 3:
                # sector codes that end in '_<number>' where the number is the identifier of ANOTHER sector of the model (household
                # groups HH_1 .. HH_3 in a fresh interpreter are the everyday version): 'GRP_17__F' is a canonical name, not a
                # temporary one with something in front of it
                from sfc_models.sector import Sector as _S3
                ck0, country0 = sorted(b.countries.items())[0]
                for (tk_, tsec_) in sectors[:2]:
                    code_ = 'GRP_%d' % tsec_.ID
                    if any(s_.Code == code_ for _, s_ in sectors):
                        continue
                    g_ = _S3(country0, code_, 'a group whose code ends in the identifier of another sector', has_F=True)
                    g_.AddVariable('SAVE_L', 'a share of its own assets', '0.25*F + 0.5*LAG_F')
                    g_.AddCashFlow('+TRANSFER_L', '1.5', 'a transfer received')
                    sectors.append(((ck0, code_), g_))
                rec.count('sector_codes_ending_in_another_sectors_identifier.declared')
            if case.get('idx', 0) % 4 == 2:
                # equations built term by term from PRODUCTS and QUOTIENTS of local names (Equation / Term objects, AddTerm)
                from sfc_models.equation import Equation as _Eq2
                tsec = rng.choice(sectors)[1]
                if 'P_unit' not in tsec.EquationBlock:
                    for nm, val in (('P_unit', '2.0'), ('Q_sold', '3.0'), ('WB_paid', '5.0')):
                        tsec.AddVariable(nm, 'a local variable', val)
                    e_ = _Eq2('UNITCOST_L', 'wage bill per unit: a quotient of locals', 'WB_paid/Q_sold')
                    tsec.AddVariableFromEquation(e_)
                    e2_ = _Eq2('REV_L', 'revenue less unit cost, added term by term', 'P_unit*Q_sold')
                    e2_.AddTerm('-WB_paid/Q_sold')
                    e2_.AddTerm('Q_sold')
                    tsec.AddVariableFromEquation(e2_)
                    rec.count('term_built_products_and_quotients_of_locals.declared')
            if case['eseed'] % 3 == 0:
                # local variables named like math / builtin symbols (pi = inflation, gamma, e, tau, sum, id), used by
                # their local names in the same sector: they are sector variables like any other
                hsec = rng.choice(sectors)[1]
                if 'pi' not in hsec.EquationBlock:
                    for nm, val in (('pi', '0.02'), ('gamma', '0.5'), ('e', '1.25'), ('tau', '0.2'), ('sum', '4.0'), ('id', '7.0')):
                        hsec.AddVariable(nm, 'a local variable named like a library symbol', val)
                    hsec.AddVariable('USES_LOCALS', 'refers to them by their local names', 'pi*2.0 + gamma - e + tau*sum + id')
                    # ... and locals whose names read as numbers to float(): INF (inflation), NAN, Infinity - each also the WHOLE
                    # right-hand side of another local definition
                    for nm, val in (('INF', '0.03'), ('NAN', '2.0'), ('Infinity', '9.0')):
                        hsec.AddVariable(nm, 'a local variable whose name float() would accept', val)
                        hsec.AddVariable('EXP_' + nm, 'expected value: the bare local name', nm)
                    hsec.AddVariable('USES_NUMBERLIKE', 'refers to them by their local names', 'EXP_INF + 1.5*INF - NAN/Infinity + EXP_NAN')
                    # ... and a local variable called t (a tax rate), used by its local name: the sector's t, not the time axis
                    hsec.AddVariable('t', 'a local variable that happens to be called t', '0.25')
                    hsec.AddVariable('USES_LOCAL_T', 'refers to the local t', 't*8.0 + tau')
                    rec.count('locals_named_like_math_symbols.declared')
            if case['eseed'] % 2 == 0 and len(sectors) >= 3:
                # ONE Equation object (a behavioural rule written once) handed to several sectors: each sector's copy
                # must be qualified with that sector's own names
                from sfc_models.equation import Equation as _Eq
                rule = _Eq('SPEND_RULE', 'a rule shared by several sectors', 'RATE_L*WEALTH_L + 1.0')
                hosts = rng.sample(sectors, 3)
                for j, (hk, hsec2) in enumerate(hosts):
                    if 'RATE_L' in hsec2.EquationBlock:
                        continue
                    hsec2.AddVariable('RATE_L', 'local rate', repr(0.25 * (j + 1)))
                    hsec2.AddVariable('WEALTH_L', 'local wealth', repr(10.0 * (j + 2)))
                    if j % 2 == 0:
                        hsec2.AddVariableFromEquation(rule)
                    else:
                        hsec2.AddVariable('SPEND_RULE', 'a rule shared by several sectors', rule)
                    embedded.append((hsec2, 'SPEND_RULE', hsec2, 'RATE_L', False, 'shared_rule', (hsec2, 'WEALTH_L')))
                rec.count('equation_object_shared_by_sectors.declared')
            # cross rates requested by user code before the build (the build itself asks for the same rates later,
            # when it converts cross-currency flows)
            ext = mod.ExternalSector
            curs = [z['cur'] for z in spec['zones']]
            if ext is not None and len(curs) >= 2 and case.get('ask_cross_rates', True):
                xr = ext['XR']
                for (ca, cb) in [(a_, b_) for a_ in curs for b_ in curs if a_ != b_][:4]:
                    name = xr.GetCrossRate(ca, cb)
                    was_ph = PLACEHOLDER.match(name) is not None
                    if was_ph:
                        handed.append((name, xr, '%s_%s' % (ca, cb)))
                    holder = rng.choice(sectors)[1]
                    var = 'XRUSE_%s_%s' % (ca, cb)
                    if var in holder.EquationBlock:
                        continue
                    holder.AddVariable(var, 'uses a cross rate requested before the build', '2.0*%s + 1.0' % name)
                    embedded.append((holder, var, xr, '%s_%s' % (ca, cb), was_ph, 'blob', None))
                    rec.count('cross_rates.requested_before_build')
            for i in range(case['n_embed']):
                (tk, tsec) = rng.choice(sectors)
                locs = [l for l in EMBED_LOCALS + ['X', 'Y'] if l in tsec.EquationBlock]
                if not locs:
                    continue
                tl = rng.choice(locs)
                name = tsec.GetVariableName(tl)
                was_ph = PLACEHOLDER.match(name) is not None
                where = rng.choice(['other', 'other', 'same', 'global'])
                form = rng.choice(['blob', 'blob', 'term_product', 'term_ratio', 'term_minus', 'string_rhs', 'exogenous'])
                var = 'XTRA%d' % i
                if where == 'global':
                    mod.AddGlobalEquation('glob_%d' % i, 'a model-level equation', '2.0*%s + 1.0' % name)
                    embedded.append((None, 'glob_%d' % i, tsec, tl, was_ph, 'blob', None))
                    continue
                holder = tsec if where == 'same' else rng.choice(sectors)[1]
                if var in holder.EquationBlock:
                    continue
                second = None
                if form == 'exogenous':
                    # an exogenous DEFINITION that names another variable: the solver cannot evaluate it (exogenous
                    # series are literals), but the emitted text must still carry the canonical name, not the placeholder
                    holder.AddVariable(var, 'exogenous definition naming a requested variable', '0.0')
                    holder.SetExogenous(var, name)
                elif form == 'blob':
                    holder.AddVariable(var, 'embeds a requested name', '2.0*%s + 1.0' % name)
                elif form == 'term_product':
                    holder.AddVariable(var, 'embeds a requested name in a product term', '')
                    holder.AddTermToEquation(var, name + '*0.5')
                elif form == 'term_minus':
                    holder.AddVariable(var, 'embeds a requested name in a signed term', '')
                    holder.AddTermToEquation(var, '-' + name)
                elif form == 'term_ratio':
                    (tk2, tsec2) = rng.choice(sectors)
                    locs2 = [l for l in EMBED_LOCALS + ['X', 'Y'] if l in tsec2.EquationBlock]
                    if not locs2:
                        continue
                    tl2 = rng.choice(locs2)
                    name2 = tsec2.GetVariableName(tl2)
                    holder.AddVariable(var, 'ratio of two requested names', '')
                    holder.AddTermToEquation(var, name + '/' + name2)
                    second = (tsec2, tl2)
                else:
                    from sfc_models.equation import Equation as _E
                    holder.AddVariableFromEquation(_E(var, 'string rhs that is a simple term', rhs=name + '*' + name))
                embedded.append((holder, var, tsec, tl, was_ph, form, second))
            mode = case.get('mode', 'plain')
            kept = []
            if mode == 'rebuild':
                # names requested now (placeholders unless codes exist) and kept by the caller for after the first build
                for i in range(3):
                    (tk, tsec) = rng.choice(sectors)
                    locs = [l for l in EMBED_LOCALS + ['X', 'Y'] if l in tsec.EquationBlock]
                    if locs:
                        tl = rng.choice(locs)
                        nm = tsec.GetVariableName(tl)
                        kept.append((tsec, tl, nm, PLACEHOLDER.match(nm) is not None))

            def run_main(solve):
                with contextlib.redirect_stdout(io.StringIO()):
                    if mode == 'steps':
                        try:
                            mod._GetSteps()
                            mod._RunAllSteps()
                        except NameError as e:
                            rec.violate('model_with_embedded_names_fails', {'err': repr(e)[:400], 'mode': mode},
                                        mechanism='dangling_or_unsolvable')
                        except Exception as e:
                            rec.count('solve_failed_for_numerical_reasons')
                    elif solve:
                        mod.EquationSolver.MaxIterations = 3000
                        try:
                            mod.main()
                        except NameError as e:
                            # a name that is not defined anywhere: the system is not closed
                            rec.violate('model_with_embedded_names_fails', {'err': repr(e)[:400], 'mode': mode},
                                        mechanism='dangling_or_unsolvable')
                        except Exception as e:
                            # an embedded ratio may divide by a variable that is zero, the solver may not converge:
                            # that says nothing about closure; the emitted text is still judged below
                            rec.count('solve_failed_for_numerical_reasons')
                    else:
                        mod._GenerateFullSectorCodes()
                        mod._GenerateEquations()
                        mod._FixAliases()
                        mod._GenerateRegisteredCashFlows()
                        mod._ProcessExogenous()
                        mod.FinalEquations = mod._CreateFinalEquations()
            run_main(case['solve'] or mode == 'rebuild')
            if mode == 'steps':
                rec.count('built_by_step_runner')
            if mode == 'rebuild' and kept and mod.FinalEquations:
                for j, (tsec, tl, nm, was_ph) in enumerate(kept):
                    var = 'LATER%d' % j
                    if j == 0:
                        mod.AddGlobalEquation('later_glob', 'a model-level equation added after the first build', '2.0*%s + 1.0' % nm)
                        embedded.append((None, 'later_glob', tsec, tl, was_ph, 'blob', None))
                        continue
                    holder = rng.choice(sectors)[1]
                    if var in holder.EquationBlock:
                        continue
                    if j == 1:
                        holder.AddVariable(var, 'added after the first build', '2.0*%s + 1.0' % nm)
                        embedded.append((holder, var, tsec, tl, was_ph, 'blob', None))
                    else:
                        holder.AddVariable(var, 'added after the first build (product term)', '')
                        holder.AddTermToEquation(var, nm + '*0.5')
                        embedded.append((holder, var, tsec, tl, was_ph, 'term_product', None))
                mod.FinalEquations = ''
                run_main(True)
                rec.count('rebuilt_with_names_kept_from_before_first_build')
        except Exception as e:
            Sector.GetVariableName = orig_gvn
            if interleave and self.run_case(dict(case, no_interleave=True))['verdict'] in ('held', 'violated'):
                rec.violate('model_cannot_be_built_while_other_models_are_created',
                            {'err': repr(e)[:300], 'note': 'the same case builds when no other Model is created during its construction'})
                return {'verdict': 'violated', 'shape': shape, 'counters': rec.counters, 'violations': rec.violations}
            return {'verdict': 'notjudged', 'shape': shape + '|build:' + type(e).__name__, 'obs': {'err': repr(e)[:300]}}
        finally:
            Sector.GetVariableName = orig_gvn
        rec.count('placeholders.handed_out', len(handed))
        if case.get('idx', 0) % 8 == 6 and not case.get('no_interleave'):
            # the smallest case: a model in which exactly ONE name was handed out before the codes existed
            from sfc_models.models import Model as _M1, Country as _C1
            m1 = _M1()
            c1 = _C1(m1, 'C1', 'one country')
            a1 = Sector(c1, 'AA', 'a', has_F=False)
            b1 = Sector(c1, 'BB', 'b', has_F=False)
            a1.AddVariable('X', 'x', '2.5')
            b1.AddVariable('Y', 'a local constant', '1.0')
            m1.AddGlobalEquation('BB__Y2', 'a model-level equation that refers to the sector', '2.0*' + orig_gvn(a1, 'X'))
            m1.MaxTime = 2
            try:
                with contextlib.redirect_stdout(io.StringIO()):
                    m1.main()
                txt1 = m1.FinalEquations
                ok1 = 'BB__Y2' in txt1 and 'AA__X' in txt1.split('BB__Y2', 1)[1].split('\n', 1)[0] and '_%d__' % a1.ID not in txt1
                got1 = m1.EquationSolver.TimeSeries.get('BB__Y2', [None, None])[1]
            except Exception as e:
                ok1, got1, txt1 = False, repr(e)[:200], getattr(m1, 'FinalEquations', '')
            rec.count('single_placeholder_model.judged')
            if not ok1 or got1 != 5.0:
                rec.violate('placeholder_survives', {'model': 'two sectors, exactly one name handed out before the codes existed',
                                                     'BB__Y2_at_k1': got1, 'text': txt1[:400]})
        text = mod.FinalEquations
        if not text:
            if interleave and self.run_case(dict(case, no_interleave=True))['verdict'] in ('held', 'violated'):
                rec.violate('model_cannot_be_built_while_other_models_are_created',
                            {'note': 'no equations were produced; the same case builds when no other Model is created during its construction'})
                return {'verdict': 'violated', 'shape': shape, 'counters': rec.counters, 'violations': rec.violations}
            return {'verdict': 'notjudged', 'shape': shape + '|no_text'}
        self.judge(rec, mod, text, embedded, spec)
        rec.count('models.judged')
        return {'verdict': 'violated' if rec.violations else 'held', 'nontrivial': len(embedded) >= 1, 'shape': shape,
                'counters': rec.counters, 'violations': rec.violations[:5],
                'obs': {'n_handed': len(handed), 'embedded': [(h.Code if h else 'GLOBAL', v, t.Code, l, p, f)
                                                              for h, v, t, l, p, f, _ in embedded][:6]}}

    def judge(self, rec, mod, text, embedded, spec):
        blk = B.split_block(text)
        multi = len(mod.CountryList) > 1
        expected = {}
        for c in mod.CountryList:
            for s in c.SectorList:
                fc = (c.Code + '_' + s.Code) if multi else s.Code
                for v in s.EquationBlock.GetEquationList():
                    expected[fc + '__' + v] = (s, v, fc)
        globals_ = [g[0] for g in mod.GlobalVariables]
        lhs = [n for n, _ in blk['endo']] + [n for n, _ in blk['lag']] + [n for n, _ in blk['exo']]
        # (1)+(2) canonical left-hand sides, each exactly once, equal to the object graph
        seen = {}
        for n in lhs:
            seen[n] = seen.get(n, 0) + 1
        for n, cnt in seen.items():
            rec.count('lhs.judged')
            if cnt != 1:
                rec.violate('variable_defined_more_than_once', {'var': n, 'times': cnt})
            if n in globals_ or n == 't':
                continue
            if n not in expected:
                rec.violate('left_hand_side_not_canonical', {'var': n,
                                                             'hint': 'expected <FullCode>__<local> with FullCode = %s' %
                                                             ('country_sector' if multi else 'sector code')})
                continue
            if '__' in n.split('__', 1)[1]:
                rec.violate('double_underscore_in_local_name', {'var': n})
        missing = [n for n in expected if n not in seen]
        if missing:
            rec.violate('variable_of_object_graph_not_emitted', {'missing': missing[:10]})
        for g in globals_:
            if g not in seen:
                rec.violate('global_equation_not_emitted', {'var': g})
        defined = set(lhs) | {'t'}
        # (3)+(4) closure and placeholder scan of every code part (rows, exogenous rows, initial-condition rows)
        rows = [(n, r) for n, r in blk['endo']] + [(n, r) for n, r in blk['exo']] + \
               [(n + '(0)', r) for n, r in blk['ic'].items()] + [(n, s) for n, s in blk['lag']]
        for n, r in rows:
            for m in PLACEHOLDER.findall(n + ' = ' + r):
                rec.violate('placeholder_survives', {'row': '%s = %s' % (n, r[:200]), 'placeholder': m},
                            mechanism='placeholder_survives')
            try:
                toks = B.name_tokens(r)
            except Exception:
                continue
            for tkn in toks:
                rec.count('rhs_names.judged')
                if tkn in defined or tkn in PERMITTED:
                    continue
                if PLACEHOLDER.match(tkn):
                    continue   # already reported
                rec.violate('name_on_right_hand_side_not_defined', {'row': '%s = %s' % (n, r[:200]), 'name': tkn})
        for n in blk['ic']:
            if n not in defined:
                rec.violate('initial_condition_for_undefined_variable', {'var': n})
        if rec.violations:
            return
        # (5) meaning: emitted right-hand side == sector-local form under the name map
        emitted = dict(blk['endo'])
        lagsrc = dict(blk['lag'])
        for salt in (1, 2, 3):
            val = valuation(sorted(defined | {'k'}), salt)
            for full, (s, v, fc) in expected.items():
                local_rhs = s.EquationBlock[v].RHS()
                if local_rhs.startswith('EXOGENOUS'):
                    continue
                env = dict(val)
                for lv in s.EquationBlock.GetEquationList():
                    env[lv] = val[fc + '__' + lv]
                if full in lagsrc:
                    src = lagsrc[full]
                    m = B.LAG_RE.match(local_rhs)
                    rec.count('meaning.judged')
                    if not m or (fc + '__' + m.group(1) != src and m.group(1) != src):
                        rec.violate('lag_source_changed_meaning', {'var': full, 'local': local_rhs, 'emitted_source': src})
                    continue
                if full not in emitted:
                    continue
                try:
                    a = ev(local_rhs if local_rhs.strip() else '0.0', env)
                    bb = ev(emitted[full], val)
                except Exception as e:
                    rec.violate('equation_unevaluable', {'var': full, 'local': local_rhs, 'emitted': emitted[full],
                                                         'err': repr(e)})
                    continue
                rec.count('meaning.judged')
                if isinstance(a, (int, float)) and isinstance(bb, (int, float)):
                    if abs(a - bb) > 1e-12 * max(1.0, abs(a)):
                        rec.violate('emitted_equation_differs_from_sector_local_form',
                                    {'var': full, 'local': local_rhs, 'emitted': emitted[full]})
            # embedded names evaluate to the variable they were requested for
            for holder, var, tsec, tl, was_ph, form, second in embedded:
                tfc = (tsec.Parent.Code + '_' + tsec.Code) if multi else tsec.Code
                target = tfc + '__' + tl
                if holder is None:
                    row = var
                else:
                    hfc = (holder.Parent.Code + '_' + holder.Code) if multi else holder.Code
                    row = hfc + '__' + var
                if form == 'exogenous':
                    if salt != 1:
                        continue
                    exo_rows = dict(blk['exo'])
                    rec.count('embedded.judged')
                    rec.count('embedded.form.exogenous')
                    if was_ph:
                        rec.count('embedded.was_placeholder')
                    if row not in exo_rows:
                        rec.violate('embedded_equation_missing', {'row': row, 'target': target, 'form': form})
                    elif exo_rows[row].replace(' ', '') != target:
                        rec.violate('embedded_name_resolved_to_wrong_variable', {'row': row, 'rhs': exo_rows[row],
                                                                                  'requested': target, 'form': form})
                    continue
                if row not in emitted or target not in val:
                    rec.violate('embedded_equation_missing', {'row': row, 'target': target})
                    continue
                try:
                    got = ev(emitted[row], val)
                except Exception as e:
                    rec.violate('embedded_name_dangling', {'row': row, 'rhs': emitted[row], 'err': repr(e), 'form': form},
                                mechanism='placeholder_survives')
                    continue
                rec.count('embedded.judged')
                rec.count('embedded.form.' + form)
                if holder is None:
                    rec.count('embedded.in_global_equation')
                if was_ph:
                    rec.count('embedded.was_placeholder')
                tv = float(val[target])
                if form == 'shared_rule':
                    s2, l2 = second
                    fc2 = (s2.Parent.Code + '_' + s2.Code) if multi else s2.Code
                    exp = tv * float(val[fc2 + '__' + l2]) + 1.0
                elif form == 'blob':
                    exp = 2.0 * tv + 1.0
                elif form == 'term_product':
                    exp = tv * 0.5
                elif form == 'term_minus':
                    exp = -tv
                elif form == 'string_rhs':
                    exp = tv * tv
                else:
                    s2, l2 = second
                    fc2 = (s2.Parent.Code + '_' + s2.Code) if multi else s2.Code
                    exp = tv / float(val[fc2 + '__' + l2])
                if abs(got - exp) > 1e-12 * max(1.0, abs(exp)):
                    rec.violate('embedded_name_resolved_to_wrong_variable', {'row': row, 'rhs': emitted[row],
                                                                              'requested': target, 'form': form})


PROP = C05()
