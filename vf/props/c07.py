"""C07 - cross-currency flows conserve value at the prevailing exchange rates."""
import contextlib
import io

from vf import monitors
from vf.gen import modelspec as M
from vf.props import c01


class C07(c01.C01):
    id = 'C07'
    anchors = ('ForexTransations._SendMoney', 'ForexTransations._ReceiveMoney', 'Model._GenerateRegisteredCashFlows', 'Market._GenerateMultiSupply', 'InternationalGold.SetGoldPurchases', 'ExchangeRates.GetCrossRate')
    title = 'Cross-currency flows conserve value at the prevailing exchange rates'
    rule = ('cases: (a) 2-3 zone model specifications with an external sector, time-varying non-unit exchange rates '
            '(0.4..3.0), cross-zone gifts, cross-zone imports and gold-standard governments, built and solved by the real '
            'code and re-solved exactly: per period sum_c NET_c*XR_c == 0 incl. the numeraire, NET_NUMERAIRE == 0 when all '
            'cross flows are paired (no gold), NET of each currency == declared flows sent - received at XR_src/XR_dst, '
            "and every receiving sector's ledger is credited x*XR_src/XR_dst (sector ledgers); (b) the twin of every "
            'cross-zone spec WITHOUT an external sector must raise LogicError from main() with no series produced; '
            'distinct = hash of spec; non-trivial = a cross-zone flow > 1e-3 was judged')
    assumptions = ['rates are never 1.0 in judged periods (what the test-suite already covers)']
    required_counters = ('models.judged', 'fx_net_positions_not_zero_in_numeraire.judged',
                         'fx_position_not_declared_cross_currency_flows.judged', 'cross_currency_credit.judged',
                         'refusal.judged',
                         'models.judged.with_two_foreign_suppliers_of_one_market',
                         'retry_after_refusal.judged')
    which = ('fx', 'ledger', 'zone')

    def n_cases(self, tier):
        return 32 if tier == 'quick' else 1200

    def make_case(self, rng, idx, tier):
        if idx % 16 == 5:
            n_ = 6
            return {'kind': 'retry_after_refusal', 'gift': rng.choice([2.5, 4.0, 1.0]), 'inc': rng.random() < 0.5,
                    'domestic_first': rng.random() < 0.5, 'attempts': rng.choice([1, 1, 2]),
                    'xr_cad': [rng.choice([1.0, 1.25, 0.8, 2.0]) for _ in range(n_)],
                    'xr_usd': [rng.choice([1.0, 0.5, 1.6, 2.5]) for _ in range(n_)]}
        case = c01.gen_case(rng, idx, tier, emphasis='fx')
        if idx % 8 == 2:
            # one market with suppliers from two other currency zones (unequal shares)
            sp3 = M.gen_spec(rng, n_zones=3, ext=True, maxtime=4)
            if M.force_two_foreign_suppliers(rng, sp3):
                case['spec'] = sp3
                case['two_foreign_suppliers'] = True
        case['twin_without_ext'] = (idx % 4 == 3)
        if case['twin_without_ext']:
            # a spec whose twin without an external sector is well defined: no gold, no numeraire-zone sector,
            # at least one cross-zone flow
            for _ in range(40):
                sp = case['spec']
                ok = (self.cross_flows(sp) > 0 and not sp.get('row') and
                      not any(z['gov']['form'] in ('gold', 'gold_cb') for z in sp['zones']))
                if ok:
                    break
                case['spec'] = M.gen_spec(rng, n_zones=2, ext=True)
        return case

    def run_retry_after_refusal(self, case):
        """A cross-currency flow registered without an external sector is refused; the caller then creates the
        ExternalSector on the same model and builds again: value must be conserved in what is then produced."""
        import contextlib, io
        from sfc_models.models import Model, Country
        from sfc_models.sector import Sector
        from sfc_models.external import ExternalSector
        from vf import monitors
        rec = monitors.Recorder()
        T = 4
        xr = {'CAD': case['xr_cad'], 'USD': case['xr_usd']}
        mod = Model()
        ca = Country(mod, 'CA', 'CA', currency='CAD')
        us = Country(mod, 'US', 'US', currency='USD')
        a, c2, d2 = (Sector(ca, n, n, has_F=True) for n in ('A', 'C', 'D'))
        b = Sector(us, 'B', 'b', has_F=True)
        a.AddVariable('GIFT', 'gift', repr(case['gift']))
        c2.AddVariable('PAY', 'domestic payment', '1.5')
        if case['domestic_first']:
            mod.RegisterCashFlow(c2, d2, 'PAY')
        mod.RegisterCashFlow(a, b, 'GIFT', is_income_source=case['inc'], is_income_dest=not case['inc'])
        if not case['domestic_first']:
            mod.RegisterCashFlow(c2, d2, 'PAY')
        mod.MaxTime = T
        refused = 0
        with contextlib.redirect_stdout(io.StringIO()):
            for _ in range(case['attempts']):
                try:
                    mod.main()
                    rec.violate('cross_currency_flow_without_external_sector_not_refused', {})
                    return {'verdict': 'violated', 'shape': 'retry_after_refusal', 'counters': rec.counters, 'violations': rec.violations}
                except Exception:
                    refused += 1
            ext = ExternalSector(mod)
            ext['XR'].SetExogenous('CAD', list(xr['CAD']))
            ext['XR'].SetExogenous('USD', list(xr['USD']))
            try:
                mod.main()
            except Exception as e:
                return {'verdict': 'notjudged', 'shape': 'retry_after_refusal|' + type(e).__name__, 'counters': rec.counters,
                        'obs': {'err': repr(e)[:200]}}
        V = mod.EquationSolver.TimeSeries
        rec.count('retry_after_refusal.judged')
        for k in range(1, T + 1):
            gift = V['CA_A__GIFT'][k]
            dA = V['CA_A__F'][k] - V['CA_A__F'][k - 1]
            dB = V['US_B__F'][k] - V['US_B__F'][k - 1]
            cad = sum(V[n][k] - V[n][k - 1] for n in ('CA_A__F', 'CA_C__F', 'CA_D__F')) + V['EXT_FX__NET_CAD'][k]
            usd = dB + V['EXT_FX__NET_USD'][k]
            rate = xr['CAD'][k] / xr['USD'][k]
            checks = [('sender_not_debited_exactly_the_amount', dA, -gift), ('receiver_not_credited_amount_times_cross_rate', dB, gift * rate),
                      ('money_created_or_destroyed_in_zone', cad, 0.0), ('money_created_or_destroyed_in_zone', usd, 0.0),
                      ('fx_net_positions_not_zero_in_numeraire',
                       V['EXT_FX__NET_CAD'][k] * xr['CAD'][k] + V['EXT_FX__NET_USD'][k] * xr['USD'][k], 0.0)]
            for kind, got, exp in checks:
                if abs(got - exp) > 1e-6 * max(1.0, abs(exp)):
                    rec.violate(kind, {'k': k, 'got': got, 'expected': exp, 'refusals_before': refused,
                                       'domestic_flow_registered_first': case['domestic_first']})
                    break
            if rec.violations:
                break
        return {'verdict': 'violated' if rec.violations else 'held', 'nontrivial': True, 'shape': 'retry_after_refusal',
                'counters': rec.counters, 'violations': rec.violations, 'obs': {'refusals': refused}}

    def run_case(self, case):
        if case.get('kind') == 'retry_after_refusal':
            return self.run_retry_after_refusal(case)
        spec = case['spec']
        cross = self.cross_flows(spec)
        if case.get('twin_without_ext') and cross and not spec.get('row') and not any(z['gov']['form'] in ('gold', 'gold_cb') for z in spec['zones']):
            return self.run_refusal(case)
        res = c01.solve_and_judge(case, self.which, in_situ=False)
        if case.get('two_foreign_suppliers') and res['verdict'] in ('held', 'violated'):
            res.setdefault('counters', {})['models.judged.with_two_foreign_suppliers_of_one_market'] = 1
        if res['verdict'] in ('held', 'violated'):
            res['nontrivial'] = bool(res.get('nontrivial')) and cross > 0
        return res

    @staticmethod
    def cross_flows(spec):
        zone_of = {'EXT': 'NUMERAIRE'}
        for z in spec['zones']:
            for c in z['countries']:
                zone_of[c['key']] = z['cur']
        n = 0
        for g in spec['gifts']:
            if zone_of[g['src'][0]] != zone_of[g['dst'][0]]:
                n += 1
        for i in spec['imports']:
            if zone_of[i['market']] != zone_of[i['supplier']]:
                n += 1
        return n

    def run_refusal(self, case):
        from sfc_models.utils import LogicError
        rec = monitors.Recorder()
        spec = dict(case['spec'])
        spec['ext'] = False
        spec['zones'] = [dict(z, xr=None) for z in spec['zones']]
        b = M.build(spec, solve=False)
        outcome = 'returned'
        try:
            with contextlib.redirect_stdout(io.StringIO()):
                b.model.main()
        except Exception as e:
            outcome = type(e).__name__          # LogicError today; "refused with an error" = any exception
        rec.count('refusal.judged')
        n_series = len(b.model.EquationSolver.TimeSeries)
        if outcome == 'returned' or n_series != 0:
            rec.violate('cross_currency_flow_without_external_sector_not_refused',
                        {'outcome': outcome, 'n_series': n_series, 'gifts': spec['gifts'], 'imports': spec['imports']})
        return {'verdict': 'violated' if rec.violations else 'held', 'nontrivial': True,
                'shape': 'refusal|' + M.shape_of(spec), 'counters': rec.counters, 'violations': rec.violations,
                'obs': {'outcome': outcome, 'n_series': n_series}}


PROP = C07()
