"""C07 - cross-currency flows conserve value at the prevailing exchange rates."""
import contextlib
import io

from vf import monitors
from vf.gen import modelspec as M
from vf.props import c01


class C07(c01.C01):
    id = 'C07'
    anchors = ('ForexTransations._SendMoney', 'ForexTransations._ReceiveMoney', 'Model._GenerateRegisteredCashFlows', 'Market._GenerateMultiSupply', 'InternationalGold.SetGoldPurchases', 'ExchangeRates.GetCrossRate')
    title = 'Cross-currency flows conserve value at the prevailing exchange rates'
    rule = ('cases: (a) 2-3 zone model specifications with an external sector, time-varying non-unit exchange rates '
            '(0.4..3.0), cross-zone gifts, cross-zone imports and gold-standard governments, built and solved by the real '
            'code and re-solved exactly: per period sum_c NET_c*XR_c == 0 incl. the numeraire, NET_NUMERAIRE == 0 when all '
            'cross flows are paired (no gold), NET of each currency == declared flows sent - received at XR_src/XR_dst, '
            "and every receiving sector's ledger is credited x*XR_src/XR_dst (sector ledgers); (b) the twin of every "
            'cross-zone spec WITHOUT an external sector must raise LogicError from main() with no series produced; '
            'distinct = hash of spec; non-trivial = a cross-zone flow > 1e-3 was judged')
    assumptions = ['rates are never 1.0 in judged periods (what the test-suite already covers)']
    required_counters = ('models.judged', 'fx_net_positions_not_zero_in_numeraire.judged',
                         'fx_position_not_declared_cross_currency_flows.judged', 'cross_currency_credit.judged',
                         'refusal.judged',
                         'models.judged.with_two_foreign_suppliers_of_one_market')
    which = ('fx', 'ledger', 'zone')

    def n_cases(self, tier):
        return 32 if tier == 'quick' else 1200

    def make_case(self, rng, idx, tier):
        case = c01.gen_case(rng, idx, tier, emphasis='fx')
        if idx % 8 == 2:
            # one market with suppliers from two other currency zones (unequal shares)
            sp3 = M.gen_spec(rng, n_zones=3, ext=True, maxtime=4)
            if M.force_two_foreign_suppliers(rng, sp3):
                case['spec'] = sp3
                case['two_foreign_suppliers'] = True
        case['twin_without_ext'] = (idx % 4 == 3)
        if case['twin_without_ext']:
            # a spec whose twin without an external sector is well defined: no gold, no numeraire-zone sector,
            # at least one cross-zone flow
            for _ in range(40):
                sp = case['spec']
                ok = (self.cross_flows(sp) > 0 and not sp.get('row') and
                      not any(z['gov']['form'] in ('gold', 'gold_cb') for z in sp['zones']))
                if ok:
                    break
                case['spec'] = M.gen_spec(rng, n_zones=2, ext=True)
        return case

    def run_case(self, case):
        spec = case['spec']
        cross = self.cross_flows(spec)
        if case.get('twin_without_ext') and cross and not spec.get('row') and not any(z['gov']['form'] in ('gold', 'gold_cb') for z in spec['zones']):
            return self.run_refusal(case)
        res = c01.solve_and_judge(case, self.which, in_situ=False)
        if case.get('two_foreign_suppliers') and res['verdict'] in ('held', 'violated'):
            res.setdefault('counters', {})['models.judged.with_two_foreign_suppliers_of_one_market'] = 1
        if res['verdict'] in ('held', 'violated'):
            res['nontrivial'] = bool(res.get('nontrivial')) and cross > 0
        return res

    @staticmethod
    def cross_flows(spec):
        zone_of = {'EXT': 'NUMERAIRE'}
        for z in spec['zones']:
            for c in z['countries']:
                zone_of[c['key']] = z['cur']
        n = 0
        for g in spec['gifts']:
            if zone_of[g['src'][0]] != zone_of[g['dst'][0]]:
                n += 1
        for i in spec['imports']:
            if zone_of[i['market']] != zone_of[i['supplier']]:
                n += 1
        return n

    def run_refusal(self, case):
        from sfc_models.utils import LogicError
        rec = monitors.Recorder()
        spec = dict(case['spec'])
        spec['ext'] = False
        spec['zones'] = [dict(z, xr=None) for z in spec['zones']]
        b = M.build(spec, solve=False)
        outcome = 'returned'
        try:
            with contextlib.redirect_stdout(io.StringIO()):
                b.model.main()
        except Exception as e:
            outcome = type(e).__name__          # LogicError today; "refused with an error" = any exception
        rec.count('refusal.judged')
        n_series = len(b.model.EquationSolver.TimeSeries)
        if outcome == 'returned' or n_series != 0:
            rec.violate('cross_currency_flow_without_external_sector_not_refused',
                        {'outcome': outcome, 'n_series': n_series, 'gifts': spec['gifts'], 'imports': spec['imports']})
        return {'verdict': 'violated' if rec.violations else 'held', 'nontrivial': True,
                'shape': 'refusal|' + M.shape_of(spec), 'counters': rec.counters, 'violations': rec.violations,
                'obs': {'outcome': outcome, 'n_series': n_series}}


PROP = C07()
