"""C07 - cross-currency flows conserve value at the prevailing exchange rates."""
import contextlib
import io

from vf import monitors
from vf.gen import modelspec as M
from vf.props import c01


class C07(c01.C01):
    id = 'C07'
    anchors = ('ForexTransations._SendMoney', 'ForexTransations._ReceiveMoney', 'Model._GenerateRegisteredCashFlows', 'Market._GenerateMultiSupply', 'InternationalGold.SetGoldPurchases', 'ExchangeRates.GetCrossRate')
    title = 'Cross-currency flows conserve value at the prevailing exchange rates'
    rule = ('cases: (a) 2-3 zone model specifications with an external sector, time-varying non-unit exchange rates '
            '(0.4..3.0), cross-zone gifts, cross-zone imports and gold-standard governments, built and solved by the real '
            'code and re-solved exactly: per period sum_c NET_c*XR_c == 0 incl. the numeraire, NET_NUMERAIRE == 0 when all '
            'cross flows are paired (no gold), NET of each currency == declared flows sent - received at XR_src/XR_dst, '
            "and every receiving sector's ledger is credited x*XR_src/XR_dst (sector ledgers); (b) the twin of every "
            'cross-zone spec WITHOUT an external sector must raise LogicError from main() with no series produced; '
            'distinct = hash of spec; non-trivial = a cross-zone flow > 1e-3 was judged')
    assumptions = ['rates are never 1.0 in judged periods (what the test-suite already covers)']
    required_counters = ('models.judged', 'fx_net_positions_not_zero_in_numeraire.judged',
                         'fx_position_not_declared_cross_currency_flows.judged', 'cross_currency_credit.judged',
                         'refusal.judged',
                         'models.judged.with_two_foreign_suppliers_of_one_market',
                         'retry_after_refusal.judged',
                         'models.judged.with_country_currency_member_overwritten_after_construction',
                         'gold_set_up_directly_then_region_joins.judged',
                         'models.judged.with_currency_codes_that_are_fragments_of_the_word_numeraire')
    which = ('fx', 'ledger', 'zone')

    def n_cases(self, tier):
        return 32 if tier == 'quick' else 1200

    def make_case(self, rng, idx, tier):
        if idx % 16 == 5:
            n_ = 6
            return {'kind': 'retry_after_refusal', 'gift': rng.choice([2.5, 4.0, 1.0]), 'inc': rng.random() < 0.5,
                    'domestic_first': rng.random() < 0.5, 'attempts': rng.choice([1, 1, 2]),
                    'xr_cad': [rng.choice([1.0, 1.25, 0.8, 2.0]) for _ in range(n_)],
                    'xr_usd': [rng.choice([1.0, 0.5, 1.6, 2.5]) for _ in range(n_)]}
        if idx % 16 == 13:
            n_ = 7
            return {'kind': 'gold_set_up_directly_then_region_joins', 'gp_ca': rng.choice([4.0, -2.5, 1.5]), 'gp_us': rng.choice([-3.0, 2.0, 0.0]),
                    'gift_qc': rng.choice([5.0, 2.5]), 'gift_us': rng.choice([2.0, 3.5]), 'joins': rng.choice(['CAD', 'USD', 'CAD']),
                    'ext_first': rng.random() < 0.7, 'second_late_country': rng.random() < 0.5,
                    'xr_cad': [rng.choice([1.5, 1.25, 0.8, 2.0]) for _ in range(n_)],
                    'xr_usd': [rng.choice([0.8, 0.5, 1.6, 2.5]) for _ in range(n_)]}
        case = c01.gen_case(rng, idx, tier, emphasis='fx')
        if idx % 8 == 2:
            # one market with suppliers from two other currency zones (unequal shares)
            sp3 = M.gen_spec(rng, n_zones=3, ext=True, maxtime=4)
            if M.force_two_foreign_suppliers(rng, sp3):
                case['spec'] = sp3
                case['two_foreign_suppliers'] = True
        if idx % 8 == 4:
            # short currency codes that happen to be fragments of the word NUMERAIRE (IR, ME, RE, NU, AIR, single letters)
            for _ in range(40):
                if self.cross_flows(case['spec']) > 0:
                    break
                case['spec'] = M.gen_spec(rng, n_zones=rng.choice([2, 3]), ext=True, maxtime=4)
            short = rng.sample(['IR', 'ME', 'ER', 'RE', 'NU', 'AIR', 'A', 'E', 'N', 'UM'], len(case['spec']['zones']))
            for z, cur in zip(case['spec']['zones'], short):
                z['cur'] = cur
            case['currency_codes_inside_the_word_numeraire'] = True
        if idx % 8 == 6:
            case.setdefault('build_opts', {})['overwrite_currency_member'] = True
            for _ in range(40):
                if self.cross_flows(case['spec']) > 0:
                    break
                case['spec'] = M.gen_spec(rng, n_zones=rng.choice([2, 3]), ext=True, maxtime=4)
        case['twin_without_ext'] = (idx % 4 == 3)
        if case['twin_without_ext']:
            # a spec whose twin without an external sector is well defined: no gold, no numeraire-zone sector,
            # at least one cross-zone flow
            for _ in range(40):
                sp = case['spec']
                ok = (self.cross_flows(sp) > 0 and not sp.get('row') and
                      not any(z['gov']['form'] in ('gold', 'gold_cb') for z in sp['zones']))
                if ok:
                    break
                case['spec'] = M.gen_spec(rng, n_zones=2, ext=True)
        return case

    def run_retry_after_refusal(self, case):
        """A cross-currency flow registered without an external sector is refused; the caller then creates the
        ExternalSector on the same model and builds again: value must be conserved in what is then produced."""
        import contextlib, io
        from sfc_models.models import Model, Country
        from sfc_models.sector import Sector
        from sfc_models.external import ExternalSector
        from vf import monitors
        rec = monitors.Recorder()
        T = 4
        xr = {'CAD': case['xr_cad'], 'USD': case['xr_usd']}
        mod = Model()
        ca = Country(mod, 'CA', 'CA', currency='CAD')
        us = Country(mod, 'US', 'US', currency='USD')
        a, c2, d2 = (Sector(ca, n, n, has_F=True) for n in ('A', 'C', 'D'))
        b = Sector(us, 'B', 'b', has_F=True)
        a.AddVariable('GIFT', 'gift', repr(case['gift']))
        c2.AddVariable('PAY', 'domestic payment', '1.5')
        if case['domestic_first']:
            mod.RegisterCashFlow(c2, d2, 'PAY')
        mod.RegisterCashFlow(a, b, 'GIFT', is_income_source=case['inc'], is_income_dest=not case['inc'])
        if not case['domestic_first']:
            mod.RegisterCashFlow(c2, d2, 'PAY')
        mod.MaxTime = T
        refused = 0
        with contextlib.redirect_stdout(io.StringIO()):
            for _ in range(case['attempts']):
                try:
                    mod.main()
                    rec.violate('cross_currency_flow_without_external_sector_not_refused', {})
                    return {'verdict': 'violated', 'shape': 'retry_after_refusal', 'counters': rec.counters, 'violations': rec.violations}
                except Exception:
                    refused += 1
            ext = ExternalSector(mod)
            ext['XR'].SetExogenous('CAD', list(xr['CAD']))
            ext['XR'].SetExogenous('USD', list(xr['USD']))
            try:
                mod.main()
            except Exception as e:
                return {'verdict': 'notjudged', 'shape': 'retry_after_refusal|' + type(e).__name__, 'counters': rec.counters,
                        'obs': {'err': repr(e)[:200]}}
        V = mod.EquationSolver.TimeSeries
        rec.count('retry_after_refusal.judged')
        for k in range(1, T + 1):
            gift = V['CA_A__GIFT'][k]
            dA = V['CA_A__F'][k] - V['CA_A__F'][k - 1]
            dB = V['US_B__F'][k] - V['US_B__F'][k - 1]
            cad = sum(V[n][k] - V[n][k - 1] for n in ('CA_A__F', 'CA_C__F', 'CA_D__F')) + V['EXT_FX__NET_CAD'][k]
            usd = dB + V['EXT_FX__NET_USD'][k]
            rate = xr['CAD'][k] / xr['USD'][k]
            checks = [('sender_not_debited_exactly_the_amount', dA, -gift), ('receiver_not_credited_amount_times_cross_rate', dB, gift * rate),
                      ('money_created_or_destroyed_in_zone', cad, 0.0), ('money_created_or_destroyed_in_zone', usd, 0.0),
                      ('fx_net_positions_not_zero_in_numeraire',
                       V['EXT_FX__NET_CAD'][k] * xr['CAD'][k] + V['EXT_FX__NET_USD'][k] * xr['USD'][k], 0.0)]
            for kind, got, exp in checks:
                if abs(got - exp) > 1e-6 * max(1.0, abs(exp)):
                    rec.violate(kind, {'k': k, 'got': got, 'expected': exp, 'refusals_before': refused,
                                       'domestic_flow_registered_first': case['domestic_first']})
                    break
            if rec.violations:
                break
        return {'verdict': 'violated' if rec.violations else 'held', 'nontrivial': True, 'shape': 'retry_after_refusal',
                'counters': rec.counters, 'violations': rec.violations, 'obs': {'refusals': refused}}

    def run_gold_then_region(self, case):
        """Gold purchases are set up with the public InternationalGold.SetGoldPurchases() while the model is being put
        together; afterwards a Region joins one of the existing currency zones and gifts cross the border both ways."""
        import contextlib, io
        from sfc_models.models import Model, Country, Region
        from sfc_models.sector import Sector
        from sfc_models.external import ExternalSector
        from vf import monitors
        rec = monitors.Recorder()
        T = 4
        xr = {'CAD': case['xr_cad'], 'USD': case['xr_usd']}
        mod = Model()
        ext = ExternalSector(mod) if case['ext_first'] else None
        ca = Country(mod, 'CA', 'CA', currency='CAD')
        us = Country(mod, 'US', 'US', currency='USD')
        if ext is None:
            ext = ExternalSector(mod)
        gca = Sector(ca, 'GOV', 'gov', has_F=True)
        gus = Sector(us, 'GOV', 'gov', has_F=True)
        gca.AddVariable('GP', 'gold purchases', repr(case['gp_ca']))
        gus.AddVariable('GP', 'gold purchases', repr(case['gp_us']))
        ext['GOLD'].SetGoldPurchases(gca, 'GP', 100.)
        ext['GOLD'].SetGoldPurchases(gus, 'GP', 50.)
        # the model is extended afterwards: a region that shares an existing currency
        qc = Region(mod, 'QC', 'QC', currency=case['joins'])
        if case['second_late_country']:
            Country(mod, 'TX', 'TX', currency='USD' if case['joins'] == 'CAD' else 'CAD')
        hq = Sector(qc, 'HH', 'hh', has_F=True)
        hu = Sector(us if case['joins'] == 'CAD' else ca, 'HH', 'hh', has_F=True)
        hq.AddVariable('GIFT', 'gift', repr(case['gift_qc']))
        hu.AddVariable('GIFT', 'gift', repr(case['gift_us']))
        mod.RegisterCashFlow(hq, hu, 'GIFT')
        mod.RegisterCashFlow(hu, hq, 'GIFT')
        ext['XR'].SetExogenous('CAD', list(xr['CAD']))
        ext['XR'].SetExogenous('USD', list(xr['USD']))
        mod.MaxTime = T
        try:
            with contextlib.redirect_stdout(io.StringIO()):
                mod.main()
        except Exception as e:
            return {'verdict': 'notjudged', 'shape': 'gold_then_region|' + type(e).__name__, 'counters': rec.counters,
                    'obs': {'err': repr(e)[:300]}}
        V = mod.EquationSolver.TimeSeries
        rec.count('gold_set_up_directly_then_region_joins.judged')
        cq, cu = case['joins'], ('USD' if case['joins'] == 'CAD' else 'CAD')      # currencies of the two gift senders
        nq, nu = 'QC_HH', ('US_HH' if case['joins'] == 'CAD' else 'CA_HH')
        for k in range(1, T + 1):
            rq, ru = xr[cq][k], xr[cu][k]
            gq, gu = V[nq + '__GIFT'][k], V[nu + '__GIFT'][k]
            gp = {'CAD': V['CA_GOV__GP'][k], 'USD': V['US_GOV__GP'][k]}
            net = {cq: gp[cq] + gq - gu * ru / rq, cu: gp[cu] + gu - gq * rq / ru}
            valued = V['EXT_FX__NET_CAD'][k] * xr['CAD'][k] + V['EXT_FX__NET_USD'][k] * xr['USD'][k] + V['EXT_FX__NET_NUMERAIRE'][k]
            checks = [('receiver_not_credited_amount_times_cross_rate', V[nu + '__F'][k] - V[nu + '__F'][k - 1], gq * rq / ru - gu),
                      ('receiver_not_credited_amount_times_cross_rate', V[nq + '__F'][k] - V[nq + '__F'][k - 1], gu * ru / rq - gq),
                      ('fx_net_positions_not_zero_in_numeraire', valued, 0.0),
                      ('fx_net_of_currency_not_flows_sent_less_flows_received', V['EXT_FX__NET_' + cq][k], net[cq]),
                      ('fx_net_of_currency_not_flows_sent_less_flows_received', V['EXT_FX__NET_' + cu][k], net[cu]),
                      ('exchange_rate_not_the_prescribed_path', V['EXT_XR__CAD'][k], xr['CAD'][k]),
                      ('exchange_rate_not_the_prescribed_path', V['EXT_XR__USD'][k], xr['USD'][k])]
            for kind, got, exp in checks:
                if abs(got - exp) > 1e-6 * max(1.0, abs(exp)):
                    rec.violate(kind, {'k': k, 'got': got, 'expected': exp, 'region_joins_zone': case['joins'],
                                       'history': 'SetGoldPurchases called directly during construction, a Region joined an existing zone afterwards'})
                    break
            if rec.violations:
                break
        return {'verdict': 'violated' if rec.violations else 'held', 'nontrivial': True, 'shape': 'gold_then_region|' + case['joins'],
                'counters': rec.counters, 'violations': rec.violations}

    def run_case(self, case):
        if case.get('kind') == 'retry_after_refusal':
            return self.run_retry_after_refusal(case)
        if case.get('kind') == 'gold_set_up_directly_then_region_joins':
            return self.run_gold_then_region(case)
        spec = case['spec']
        cross = self.cross_flows(spec)
        if case.get('twin_without_ext') and cross and not spec.get('row') and not any(z['gov']['form'] in ('gold', 'gold_cb') for z in spec['zones']):
            return self.run_refusal(case)
        res = c01.solve_and_judge(case, self.which, in_situ=False)
        if case.get('currency_codes_inside_the_word_numeraire') and res['verdict'] in ('held', 'violated'):
            res.setdefault('counters', {})['models.judged.with_currency_codes_that_are_fragments_of_the_word_numeraire'] = 1
        if case.get('two_foreign_suppliers') and res['verdict'] in ('held', 'violated'):
            res.setdefault('counters', {})['models.judged.with_two_foreign_suppliers_of_one_market'] = 1
        if res['verdict'] in ('held', 'violated'):
            res['nontrivial'] = bool(res.get('nontrivial')) and cross > 0
        return res

    @staticmethod
    def cross_flows(spec):
        zone_of = {'EXT': 'NUMERAIRE'}
        for z in spec['zones']:
            for c in z['countries']:
                zone_of[c['key']] = z['cur']
        n = 0
        for g in spec['gifts']:
            if zone_of[g['src'][0]] != zone_of[g['dst'][0]]:
                n += 1
        for i in spec['imports']:
            if zone_of[i['market']] != zone_of[i['supplier']]:
                n += 1
        return n

    def run_refusal(self, case):
        from sfc_models.utils import LogicError
        rec = monitors.Recorder()
        spec = dict(case['spec'])
        spec['ext'] = False
        spec['zones'] = [dict(z, xr=None) for z in spec['zones']]
        b = M.build(spec, solve=False)
        outcome = 'returned'
        try:
            with contextlib.redirect_stdout(io.StringIO()):
                b.model.main()
        except Exception as e:
            outcome = type(e).__name__          # LogicError today; "refused with an error" = any exception
        rec.count('refusal.judged')
        n_series = len(b.model.EquationSolver.TimeSeries)
        if outcome == 'returned' or n_series != 0:
            rec.violate('cross_currency_flow_without_external_sector_not_refused',
                        {'outcome': outcome, 'n_series': n_series, 'gifts': spec['gifts'], 'imports': spec['imports']})
        return {'verdict': 'violated' if rec.violations else 'held', 'nontrivial': True,
                'shape': 'refusal|' + M.shape_of(spec), 'counters': rec.counters, 'violations': rec.violations,
                'obs': {'outcome': outcome, 'n_series': n_series}}


PROP = C07()
