"""Put the repository working tree first on sys.path and assert where sfc_models comes from."""
import os
import sys
import warnings

REPO = os.path.realpath(os.environ.get('VERIF_REPO', '/repo'))
_activated = False


def activate():
    global _activated
    if _activated:
        return REPO
    warnings.filterwarnings('ignore')
    if REPO in sys.path:
        sys.path.remove(REPO)
    sys.path.insert(0, REPO)
    import sfc_models  # noqa
    origin = os.path.realpath(sfc_models.__file__)
    if not origin.startswith(REPO + os.sep):
        raise RuntimeError('sfc_models resolves to %s, not under %s' % (origin, REPO))
    _activated = True
    return REPO


def origin():
    activate()
    import sfc_models
    return os.path.realpath(sfc_models.__file__)
