"""Random expressions as token lists with by-construction NAME lists.

A generated expression is a flat list of tokens (kind, text) with kind in
{'NAME','NUMBER','OP','STRING'}; the text form is rendered with random spacing that keeps
adjacent alphanumeric tokens apart.  `evaluable` says whether eval() under an environment of
Num objects is meaningful (no attributes / keywords / strings).
"""
import keyword

NAME_POOLS = [
    ['x', 'xx', 'x_1', 'x1', 'y', 'xy', 'yx', '_x', 'x_'],
    ['a', 'b', 'ab', 'ba', 'a_b', 'abs_a', 'maxa', 'amax', 'k1'],
    ['HH__F', 'HH__INC', 'HH_F', 'H__F', 'GOV__F', 'LAG_F', 'F', 'INC', 'HH'],
    ['_1__INC', '_11__INC', '_1__IN', '_1__F', '_2__F', 'INC', 'F', '_1'],
    ['alpha', 'alph', 'lpha', 'al', 'pha', 'e1', 'E', 'j1', 'J'],
    ['α', 'αβ', 'β', 'xα', 'naïve', 'x', 'y'],
    ['t', 'k', 'tt', 't_minus_1', 'LAG_t', 'T', 'K'],
    ['e5', 'E5', 'e1', 'e10', 'x', 'y', 'j', 'J'],
]
FUNCS = ['max', 'min', 'abs', 'pow', 'float', 'sqrt', 'exp']
NUMBERS = ['1', '2', '0', '3', '10', '0.5', '.5', '5.', '1e5', '1E5', '1e-3', '2.5e+3', '0x1F', '0b101',
           '0o17', '1_000', '1_0.0_1', '1j', '2.5J', '1e1_0', '0.', '00', '1.5e2',
           '2.e5', '1.E5', '4.e1', '1.e10', '3.j', '2.J']
# number literals chosen so that glueing a following name would change the token stream are always
# separated by a space by the renderer.
STRINGS = ['"a b"', "'x'", '"x + y"', "'a = 1'", '"HH__F"', 'r"\\d"', 'b"x"', '"#x"']


class Num(float):
    """float that can also be called (lag notation X(k-1)) and indexed."""

    def __call__(self, *a):
        s = float(self) * 0.5
        for x in a:
            s += float(x) * 0.25
        return Num(s)


def _atom(rng, names, depth, feat):
    r = rng.random()
    if depth <= 0 or r < 0.45:
        if rng.random() < 0.72:
            return [('NAME', rng.choice(names))]
        return [('NUMBER', rng.choice(NUMBERS))]
    if r < 0.60:
        return [('OP', '(')] + _expr(rng, names, depth - 1, feat) + [('OP', ')')]
    if r < 0.72:
        f = rng.choice(FUNCS)
        feat.add('call')
        if f in ('max', 'min', 'pow'):
            args = _expr(rng, names, depth - 1, feat) + [('OP', ',')] + _expr(rng, names, depth - 1, feat)
        else:
            args = _expr(rng, names, depth - 1, feat)
        return [('NAME', f), ('OP', '(')] + args + [('OP', ')')]
    if r < 0.80:
        feat.add('lag')
        tvar = rng.choice(['k', 't'])
        return [('NAME', rng.choice(names)), ('OP', '('), ('NAME', tvar), ('OP', '-'),
                ('NUMBER', '1'), ('OP', ')')]
    if r < 0.86:
        feat.add('list')
        items = []
        for i in range(rng.randint(1, 3)):
            if i:
                items.append(('OP', ','))
            items += _expr(rng, names, depth - 1, feat)
        close = [('OP', ']')]
        if rng.random() < 0.5:
            close += [('OP', '['), ('NUMBER', '0'), ('OP', ']')]
        else:
            close += [('OP', '*'), ('NUMBER', '3')]
            feat.add('listval')
        return [('OP', '[')] + items + close
    if r < 0.90:
        feat.add('attr')
        return [('NAME', rng.choice(names)), ('OP', '.'), ('NAME', rng.choice(names + ['real']))]
    if r < 0.94:
        feat.add('string')
        return [('STRING', rng.choice(STRINGS))]
    if r < 0.97:
        feat.add('keyword')
        return ([('OP', '(')] + _expr(rng, names, depth - 1, feat) + [('NAME', 'if')] +
                _cmp(rng, names, depth - 1, feat) + [('NAME', 'else')] +
                _expr(rng, names, depth - 1, feat) + [('OP', ')')])
    feat.add('subscript')
    return [('NAME', rng.choice(names)), ('OP', '['), ('NAME', rng.choice(names)), ('OP', ']')]


def _cmp(rng, names, depth, feat):
    feat.add('cmp')
    return (_expr(rng, names, depth, feat) + [('OP', rng.choice(['<', '>', '<=', '>=', '==', '!=']))] +
            _expr(rng, names, depth, feat))


def _factor(rng, names, depth, feat):
    out = []
    if rng.random() < 0.2:
        out.append(('OP', rng.choice(['-', '+'])))
    out += _atom(rng, names, depth, feat)
    if rng.random() < 0.12:
        feat.add('power')
        out += [('OP', '**'), ('NUMBER', rng.choice(['2', '3', '0.5']))]
    return out


def _term(rng, names, depth, feat):
    out = _factor(rng, names, depth, feat)
    while rng.random() < 0.35:
        out += [('OP', rng.choice(['*', '/', '*', '//', '%']))] + _factor(rng, names, depth, feat)
    return out


def _expr(rng, names, depth, feat):
    out = _term(rng, names, depth, feat)
    while rng.random() < 0.45:
        out += [('OP', rng.choice(['+', '-']))] + _term(rng, names, depth, feat)
    return out


def gen_expression(rng, depth=3):
    pool = list(rng.choice(NAME_POOLS))
    k = rng.randint(2, min(6, len(pool)))
    names = rng.sample(pool, k)
    feat = set()
    if rng.random() < 0.1:
        toks = _cmp(rng, names, depth, feat)
    else:
        toks = _expr(rng, names, depth, feat)
    if rng.random() < 0.06:
        # a whole "equation" as the model writes it: lhs = rhs  (tokenizes fine, not evaluable)
        toks = [('NAME', rng.choice(names)), ('OP', '=')] + toks
        feat.add('assign')
    if rng.random() < 0.05:
        toks = toks + [('COMMENT', '# ' + rng.choice(names) + ' x = 1')]
        feat.add('comment')
    return {'tokens': toks, 'names_pool': pool, 'used_names': names, 'features': sorted(feat)}


def render(rng, toks, style=None):
    """Text with random spacing.  Alphanumeric neighbours are always separated."""
    style = style if style is not None else rng.choice(['tight', 'spaced', 'random', 'model'])
    out = ''
    prev = None
    for kind, text in toks:
        need = False
        if prev is not None:
            pk, pt = prev
            if pk in ('NAME', 'NUMBER', 'STRING') and kind in ('NAME', 'NUMBER', 'STRING'):
                need = True
            # '5.' followed by name or '.5' after a name/number would glue; 1 .real etc.
            if pk == 'NUMBER' and text.startswith('.'):
                need = True
            if pt.endswith('.') and kind in ('NAME', 'NUMBER'):
                need = True
            if pk == 'NUMBER' and text == '.':
                need = True
            if kind == 'COMMENT':
                need = True
        if need:
            out += ' '
        elif prev is not None:
            if style == 'spaced':
                out += ' '
            elif style == 'random' and rng.random() < 0.5:
                out += ' ' * rng.randint(1, 2)
            elif style == 'model' and prev[0] in ('NAME', 'NUMBER'):
                out += ' '
        out += text
        prev = (kind, text)
    if style in ('random', 'spaced') and rng.random() < 0.3 and not (toks and toks[-1][0] == 'COMMENT'):
        out = ' ' + out + ' '
    return out


def name_list(toks):
    return [t for k, t in toks if k == 'NAME']


def gen_lookup(rng, g):
    """A renaming map: kinds plain / swap / cycle / chain / overlapping / function / absent."""
    used = sorted(set(n for n in name_list(g['tokens']) if not keyword.iskeyword(n)))
    pool = g['names_pool']
    fresh = ['z', 'zz', 'z_1', 'w', 'NEW__v', 'CA_HH__F', 'q1', 'γ', 'x_new', 'US_GOV__T', 'Z9']
    kind = rng.choice(['plain', 'plain', 'swap', 'cycle', 'chain', 'overlap', 'absent', 'func', 'merge',
                       'identity', 'big'])
    lk = {}
    if not used:
        kind = 'absent'
    if kind == 'plain':
        for n in rng.sample(used, rng.randint(1, len(used))):
            lk[n] = rng.choice(fresh)
        # make injective on used names
        seen = set()
        for n in list(lk):
            while lk[n] in seen or lk[n] in used:
                lk[n] = lk[n] + '_'
            seen.add(lk[n])
    elif kind == 'swap' and len(used) >= 2:
        a, b = rng.sample(used, 2)
        lk = {a: b, b: a}
    elif kind == 'cycle' and len(used) >= 3:
        a, b, c = rng.sample(used, 3)
        lk = {a: b, b: c, c: a}
    elif kind == 'chain' and len(used) >= 2:
        a, b = rng.sample(used, 2)
        lk = {a: b, b: rng.choice(fresh)}
    elif kind == 'overlap':
        # targets that are prefixes/suffixes/infixes of used names, but are not themselves tokens
        for n in used:
            for cand in (n[:-1], n[1:], n + '_', n + n, n.upper(), n.lower()):
                if cand and cand not in used and cand.isidentifier() and rng.random() < 0.5:
                    lk[cand] = rng.choice(fresh)
        if used:
            lk[rng.choice(used)] = 'R_' + rng.choice(fresh)
    elif kind == 'func':
        fns = [n for n in used if n in FUNCS]
        if fns:
            lk[rng.choice(fns)] = 'my_fn'
        lk[rng.choice(used)] = rng.choice(fresh)
    elif kind == 'merge' and len(used) >= 2:
        a, b = rng.sample(used, 2)
        lk = {a: b}
    elif kind == 'identity':
        n = rng.choice(used)
        lk = {n: n}
    elif kind == 'big':
        for i, n in enumerate(pool):
            lk[n] = 'V%d__%s' % (i, 'v')
    else:
        lk = {'not_there': 'zzz', 'k_1': 'q'}
    if not lk:
        lk = {used[0]: 'z_only'} if used else {'nothing': 'zzz'}
    return kind, lk
