"""Random model specifications (JSON data) and a builder that turns one into real Model/Country/Sector
objects - in a chosen declaration order, under a chosen renaming, alone or embedded next to others.

spec = {'maxtime', 'ext': bool, 'zones': [zone...], 'gifts': [...], 'imports': [...]}
zone = {'cur', 'kind': 'single'|'federation', 'xr': [path]|None,
        'gov': {'form': 'consolidated'|'treasury_cb'|'gold', 'money': bool, 'deposits': bool, 'tax': rate,
                'r': [path]|None, 'gold_stock': float},
        'countries': [country...]}
country = {'key', 'role': 'single'|'central'|'region', 'hh': {'form','ai','af','portfolio': None|'share'|'tobin',
           'F0': float|None}, 'cap': None|{'ai','af'}, 'firm': {'form': 'fixed'|'multi', 'margin'}, 'G': [path]}
gift = {'src': [ckey, role], 'dst': [ckey, role], 'amount': 'expr', 'inc_src', 'inc_dst'}
imp  = {'market': ckey, 'supplier': ckey, 'mu': float}      (supplier's firm must be 'multi')
"""
import contextlib
import io
import random

DEFAULT_CODES = {'GOV': 'GOV', 'TRE': 'TRE', 'CB': 'CB', 'HH': 'HH', 'CAP': 'CAP', 'BUS': 'BUS', 'TF': 'TF',
                 'GOOD': 'GOOD', 'LAB': 'LAB', 'MON': 'MON', 'DEP': 'DEP', 'SRV': 'SRV'}


def path(rng, n, lo, hi, step=True):
    v = float(rng.randint(int(lo), int(hi)))
    out = []
    for i in range(n):
        if step and rng.random() < 0.3:
            v = float(rng.randint(int(lo), int(hi)))
        out.append(v)
    return out


def xr_path(rng, n):
    out = []
    v = rng.choice([0.4, 0.5, 0.8, 1.25, 1.6, 2.0, 2.5])
    for i in range(n):
        if rng.random() < 0.4:
            v = rng.choice([0.4, 0.5, 0.64, 0.8, 1.25, 1.6, 2.0, 2.5, 3.0])
        out.append(v)
    return out


def gen_country(rng, key, role, n, allow_portfolio, grid=True):
    def par(lo, hi):
        v = rng.uniform(lo, hi)
        return round(v, 2) if grid else v
    hh = {'form': rng.choice(['Household', 'Household', 'HouseholdWithExpectations']),
          'ai': par(0.5, 0.85), 'af': par(0.1, 0.5), 'portfolio': None, 'F0': None}
    if allow_portfolio and rng.random() < 0.7:
        hh['portfolio'] = rng.choice(['share', 'share', 'tobin'])
        hh['F0'] = float(rng.randint(40, 120))
        hh['share'] = rng.choice([0.25, 0.5, 0.6])
    elif rng.random() < 0.3:
        hh['F0'] = float(rng.randint(5, 60))
    if rng.random() < 0.25:
        hh['own_tax'] = round(rng.uniform(0.05, 0.4), 2)      # sector-specific tax rate overriding the TaxFlow's
    firm = {'form': rng.choice(['fixed', 'fixed', 'multi']), 'margin': 0.0}
    cap = None
    if firm['form'] == 'fixed' and rng.random() < 0.35:
        cap = {'ai': par(0.4, 0.8), 'af': par(0.1, 0.4)}
        firm['margin'] = rng.choice([0.1, 0.125, 0.2, 0.25])
    elif firm['form'] == 'fixed' and rng.random() < 0.3:
        # a profitable firm in a country without capitalists: it keeps its profits (no dividend recipient exists)
        firm['margin'] = rng.choice([0.1, 0.125, 0.25])
    custom = None
    if rng.random() < 0.3:
        # a pair of user-defined sectors whose CONSTRUCTORS book a cash flow (a grant) between them
        custom = {'grant': rng.choice(['2.0', '1.5', '0.75']), 'inc_donor': rng.random() < 0.5,
                  'inc_recipient': rng.random() < 0.5}
    second = None
    if rng.random() < 0.25:
        # a second market in the same country, supplied by the same firm and bought by the government
        second = {'G2': path(rng, n, 2, 9),
                  # the household buys there too: a second outflow that the USER excludes from its income
                  'hh_share': rng.choice([None, 0.05, 0.1, 0.125])}
    return {'key': key, 'role': role, 'hh': hh, 'cap': cap, 'firm': firm, 'G': path(rng, n, 10, 30),
            'custom': custom, 'second_market': second}


def add_cross_region_buyers(rng, z):
    """Households of one region also buy in ANOTHER region's goods market (same currency zone): demanders with the same
    short code ('HH') in different countries of the zone meet in one market."""
    regs = [c for c in z['countries'] if c['role'] == 'region']
    z['cross_buy'] = []
    for a in regs:
        for b_ in regs:
            if a is not b_ and (not z['cross_buy'] or rng.random() < 0.5):
                z['cross_buy'].append({'buyer': a['key'], 'market': b_['key'], 'share': rng.choice([0.05, 0.1, 0.125])})


def add_bonds(rng, z, n):
    """A second interest-bearing asset (a DepositMarket with code BOND, same issuer): portfolio households then hold
    three assets - deposits, bonds and, as the residual, money."""
    z['gov']['bonds'] = True
    z['gov']['rb'] = [rng.choice([0.0, 0.015, 0.03, 0.05]) for _ in range(n)]
    for c in z['countries']:
        if c['role'] != 'central' and c['hh']['portfolio']:
            c['hh']['bond_share'] = rng.choice([0.1, 0.2, 0.25])


def gen_zone(rng, cur, kind, keys, n, ext, grid=True):
    form = rng.choice(['consolidated', 'consolidated', 'treasury_cb'] + (['gold', 'gold_cb'] if ext else []))
    gov = {'form': form, 'money': False, 'deposits': False, 'tax': round(rng.uniform(0.1, 0.35), 2 if grid else 6),
           'r': None, 'gold_stock': float(rng.randint(20, 80))}
    if form in ('treasury_cb', 'gold_cb'):
        gov['money'] = gov['deposits'] = True
    elif form == 'consolidated':
        gov['money'] = rng.random() < 0.5
        gov['deposits'] = gov['money'] and rng.random() < 0.6
    else:
        gov['money'] = rng.random() < 0.5
    if gov['deposits']:
        gov['r'] = [rng.choice([0.0, 0.01, 0.02, 0.025, 0.04]) for _ in range(n)]
    if form in ('treasury_cb', 'gold_cb') and rng.random() < 0.4:
        # the treasury keeps a cash balance from some period on (its money demand is 0.0 by default)
        cut = rng.randint(1, 3)
        gov['tre_cash'] = [0.0] * cut + [float(rng.randint(2, 9))] * (n - cut)
    countries = []
    if kind == 'single':
        countries.append(gen_country(rng, keys[0], 'single', n, gov['deposits'], grid))
    else:
        countries.append({'key': keys[0], 'role': 'central'})
        for k in keys[1:]:
            c = gen_country(rng, k, 'region', n, gov['deposits'], grid)
            countries.append(c)
    if kind == 'federation' and rng.random() < 0.5:
        gov['asset_markets_in'] = keys[1]      # money / deposit markets declared in a region, the issuer elsewhere
    z = {'cur': cur, 'kind': kind, 'xr': xr_path(rng, n) if ext else None, 'gov': gov, 'countries': countries,
         'internal_imports': []}
    if gov['deposits'] and gov['money'] and rng.random() < 0.35:
        add_bonds(rng, z, n)
    if kind == 'federation' and rng.random() < 0.5:
        add_cross_region_buyers(rng, z)
    if kind == 'federation':
        regs = [c for c in countries if c['role'] == 'region']
        for c in regs:
            c['firm'] = {'form': 'multi', 'margin': 0.0}
            c['cap'] = None
        for a in regs:
            for b in regs:
                if a is not b and rng.random() < 0.8:
                    z['internal_imports'].append({'market': a['key'], 'supplier': b['key'],
                                                  'mu': rng.choice([0.05, 0.1, 0.15, 0.1875])})
    return z


CUR = ['CAD', 'USD', 'EUR']
KEYS = [['CA', 'CN', 'CS'], ['US', 'UN', 'US2'], ['EU', 'EN', 'ES']]


def gen_spec(rng, n_zones=None, allow_fed=True, ext=None, maxtime=None, grid=True, cross=True):
    nz = n_zones if n_zones is not None else rng.choice([1, 1, 2, 2, 3])
    ext = (nz > 1 and rng.random() < 0.85) if ext is None else ext
    T = maxtime if maxtime is not None else rng.randint(4, 8)
    n = T + 3
    zones = []
    for i in range(nz):
        kind = 'federation' if (allow_fed and rng.random() < 0.3) else 'single'
        keys = KEYS[i] if kind == 'federation' else [KEYS[i][0]]
        zones.append(gen_zone(rng, CUR[i], kind, keys, n, ext, grid))
    spec = {'maxtime': T, 'ext': ext, 'zones': zones, 'gifts': [], 'imports': []}
    hasF = []
    for z in zones:
        for c in z['countries']:
            if c['role'] == 'central':
                hasF.append((z['cur'], c['key'], 'GOVLIKE'))
            else:
                hasF.append((z['cur'], c['key'], 'HH'))
                hasF.append((z['cur'], c['key'], 'BUS'))
                if c['role'] == 'single':
                    hasF.append((z['cur'], c['key'], 'GOVLIKE'))
                if c.get('cap'):
                    hasF.append((z['cur'], c['key'], 'CAP'))
    has_gold = any(z['gov']['form'] in ('gold', 'gold_cb') for z in zones)
    if ext and cross and not has_gold and rng.random() < 0.4:
        # a "rest of the world" sector living in the external sector's own (numeraire) currency
        spec['row'] = True
        hasF.append(('NUMERAIRE', 'EXT', 'ROW'))
    for _ in range(rng.choice([0, 1, 2, 3]) + (1 if spec.get('row') else 0)):
        a = rng.choice(hasF)
        b = rng.choice(hasF)
        if spec.get('row') and not any('ROW' in (g['src'][1], g['dst'][1]) for g in spec['gifts']):
            # make sure the numeraire-zone sector takes part in at least one cross-currency flow
            other = rng.choice([h for h in hasF if h[2] != 'ROW'])
            a, b = (('NUMERAIRE', 'EXT', 'ROW'), other) if rng.random() < 0.6 else (other, ('NUMERAIRE', 'EXT', 'ROW'))
        if a == b:
            continue
        if a[0] != b[0] and not (ext and cross):
            continue
        spec['gifts'].append({'src': [a[1], a[2]], 'dst': [b[1], b[2]],
                              'amount': rng.choice(['2.5', '1.0', '4.0', '0.5', '3.25']),
                              'inc_src': rng.random() < 0.5, 'inc_dst': rng.random() < 0.5})
        if rng.random() < 0.4:
            # the SAME amount variable of the same source sector is sent to a second recipient
            c = rng.choice(hasF)
            if c != a and (c[0] == a[0] or (ext and cross)):
                spec['gifts'].append({'src': [a[1], a[2]], 'dst': [c[1], c[2]], 'amount': None,
                                      'same_var_as': len(spec['gifts']) - 1,
                                      'inc_src': spec['gifts'][-1]['inc_src'], 'inc_dst': rng.random() < 0.5})
    for i, gf in enumerate(spec['gifts']):
        gf['id'] = i          # stable variable name GIFT<id>, also when a sub-spec keeps only some gifts
    if ext and cross and nz > 1:
        # cross-zone imports: supplier country's firm must be multi-output
        cands = [(z['cur'], c) for z in zones for c in z['countries'] if c['role'] != 'central']
        for _ in range(rng.choice([0, 1, 2, 2])):
            (ca, a), (cb, b) = rng.choice(cands), rng.choice(cands)
            if ca == cb:
                continue
            # a single-output firm can also export: the market then declares the supply variable on it
            if any(i['market'] == a['key'] and i['supplier'] == b['key'] for i in spec['imports']):
                continue
            imp = {'market': a['key'], 'supplier': b['key'], 'mu': rng.choice([0.05, 0.1, 0.2])}
            if rng.random() < 0.35 and not any(i['market'] == a['key'] for i in spec['imports']):
                # the FOREIGN firm is the residual supplier; the home firm gets the explicit allocation rule
                imp['residual_foreign'] = True
                imp['home_share'] = rng.choice([0.5, 0.75, 0.875])
            spec['imports'].append(imp)
    return spec


def gen_federation_with_region_asset_markets(rng, maxtime=None, all_tobin=False, caps=False):
    """One federation whose money and deposit markets are declared in a region while the issuer sits in the central
    country; interest-bearing deposits held by a regional household; a non-zero interest rate from the start."""
    spec = None
    for _ in range(200):
        cand = gen_spec(rng, n_zones=1, maxtime=maxtime)
        z = cand['zones'][0]
        if z['kind'] == 'federation' and z['gov']['deposits']:
            spec = cand
            break
    if spec is None:
        return gen_spec(rng, n_zones=1, maxtime=maxtime)
    z = spec['zones'][0]
    regs = [c for c in z['countries'] if c['role'] == 'region']
    z['gov']['asset_markets_in'] = regs[0]['key']
    z['gov']['r'] = [rng.choice([0.01, 0.02, 0.025, 0.04]) for _ in z['gov']['r']]
    hh = regs[-1]['hh']
    if not hh['portfolio']:
        hh['portfolio'] = 'share'
        hh['share'] = rng.choice([0.25, 0.5, 0.6])
        hh['F0'] = hh['F0'] or float(rng.randint(40, 120))
    if caps:
        # every region has its own capitalists and its own profitable single-output firm (different margins)
        z['internal_imports'] = []
        for i, c in enumerate(regs):
            c['firm'] = {'form': 'fixed', 'margin': [0.1, 0.25, 0.125][i % 3]}
            c['cap'] = {'ai': [0.6, 0.5, 0.7][i % 3], 'af': [0.2, 0.3, 0.25][i % 3]}
            c['second_market'] = None
    if not z.get('cross_buy'):
        add_cross_region_buyers(rng, z)
    if all_tobin:
        for c in regs:
            c['hh']['portfolio'] = 'tobin'
            c['hh']['F0'] = c['hh']['F0'] or float(rng.randint(40, 120))
            c['hh'].setdefault('share', 0.5)
    return spec


def gen_federation_with_an_ownerless_firm(rng, maxtime=None):
    """One federation: the first region has capitalists and a profitable firm, every other region a profitable firm that has no
    owners in its own region (it retains its profits)."""
    spec = None
    for _ in range(200):
        cand = gen_spec(rng, n_zones=1, maxtime=maxtime)
        if cand['zones'][0]['kind'] == 'federation':
            spec = cand
            break
    if spec is None:
        return None
    z = spec['zones'][0]
    regs = [c for c in z['countries'] if c['role'] == 'region']
    if len(regs) < 2:
        return None
    z['internal_imports'] = []
    for i, c in enumerate(regs):
        c['firm'] = {'form': 'fixed', 'margin': [0.1, 0.25, 0.125][i % 3]}
        c['cap'] = {'ai': 0.6, 'af': 0.2} if i == 0 else None
        c['second_market'] = None
    return spec


def force_two_markets_with_household_buyer(rng, spec):
    """The first country proper gets a second market in which both the government and the household buy (the household's
    purchase excluded from its income by the user); returns the codes that make the two market codes prefix-related
    and the labour market non-default."""
    c = [c_ for c_ in spec['zones'][0]['countries'] if c_['role'] != 'central'][0]
    n = spec['maxtime'] + 3
    c['second_market'] = {'G2': path(rng, n, 2, 9), 'hh_share': rng.choice([0.05, 0.1, 0.125])}
    if spec['zones'][0]['kind'] != 'federation':
        c['firm'] = {'form': 'fixed', 'margin': c['firm'].get('margin', 0.0) if c.get('cap') else 0.0}
    lab = rng.choice(['WORK', 'LAB_N', 'L'])
    if rng.random() < 0.5:
        return {c['key']: {'SRV': rng.choice(['GOOD2', 'GOOD_N', 'GOODS']), 'LAB': lab}}
    # ... or the goods market (declared first in the canonical order) carries the longer code
    return {c['key']: {'GOOD': rng.choice(['SRV2', 'SRV_N', 'SRVS']), 'LAB': lab}}


def force_three_asset_portfolio(rng, spec):
    """Zone 0 gets money, deposits and bonds, and every household there a portfolio over the three."""
    z = spec['zones'][0]
    g = z['gov']
    if g['form'] in ('gold',):
        return False
    n = spec['maxtime'] + 3
    g['money'] = g['deposits'] = True
    if g.get('r') is None:
        g['r'] = [rng.choice([0.0, 0.01, 0.02, 0.025, 0.04]) for _ in range(n)]
    for c in z['countries']:
        if c['role'] != 'central':
            hh = c['hh']
            if not hh['portfolio']:
                hh['portfolio'] = rng.choice(['share', 'share', 'tobin'])
                hh['share'] = rng.choice([0.25, 0.5, 0.6])
            hh['F0'] = hh['F0'] or float(rng.randint(40, 120))
    add_bonds(rng, z, n)
    return True


def force_share_portfolio_with_own_lag(rng, spec):
    """Zone 0: deposits held by households through a fixed share of 0.5 (the builder then lets the holder declare the lag of
    its own deposit holding), a non-zero interest rate, no bonds."""
    z = spec['zones'][0]
    g = z['gov']
    if g['form'] == 'gold':
        return False
    n = spec['maxtime'] + 3
    g['deposits'] = True
    g['money'] = g['money'] or g['form'] != 'consolidated'
    g['r'] = [rng.choice([0.01, 0.02, 0.025, 0.04]) for _ in range(n)]
    g.pop('bonds', None)
    for c in z['countries']:
        if c['role'] != 'central':
            hh = c['hh']
            hh['portfolio'] = 'share'
            hh['share'] = 0.5
            hh.pop('bond_share', None)
            hh['F0'] = hh['F0'] or float(rng.randint(40, 120))
    return True


def force_two_foreign_suppliers(rng, spec):
    """Zone 0's goods market gets TWO suppliers from two other currency zones (different shares); needs 3 zones + ext."""
    if len(spec['zones']) < 3 or not spec['ext']:
        return False
    firsts = [[c for c in z['countries'] if c['role'] != 'central'][0] for z in spec['zones']]
    m = firsts[0]['key']
    spec['imports'] = [i for i in spec['imports'] if i['market'] != m]
    spec['imports'].append({'market': m, 'supplier': firsts[1]['key'], 'mu': 0.05})
    spec['imports'].append({'market': m, 'supplier': firsts[2]['key'], 'mu': 0.2})
    return True


def force_import_into_market_of_profitable_firm(rng, spec):
    """Zone 0's first country: a single-output firm with a profit margin and capitalists, whose goods market has a second
    supplier abroad (so the firm's own sales differ from the market total)."""
    if len(spec['zones']) < 2 or not spec['ext']:
        return False
    a = [c for c in spec['zones'][0]['countries'] if c['role'] != 'central'][0]
    b_ = [c for c in spec['zones'][1]['countries'] if c['role'] != 'central'][0]
    if spec['zones'][0]['kind'] == 'federation':
        return False
    a['firm'] = {'form': 'fixed', 'margin': rng.choice([0.1, 0.2, 0.25])}
    a['cap'] = a.get('cap') or {'ai': 0.6, 'af': 0.2}
    a['second_market'] = None
    spec['imports'] = [i for i in spec['imports'] if i['market'] != a['key']]
    spec['imports'].append({'market': a['key'], 'supplier': b_['key'], 'mu': rng.choice([0.1, 0.2, 0.25])})
    return True


def force_household_and_capitalists_sharing_a_portfolio_rule(rng, spec):
    """Zone 0's first country: household AND capitalists hold deposits and money through the weighting helper, both handing
    it the SAME rule object at the moment they are declared (so who comes first depends on the declaration order)."""
    z = spec['zones'][0]
    g = z['gov']
    if g['form'] == 'gold' or z['kind'] == 'federation':
        return False
    n = spec['maxtime'] + 3
    g['deposits'] = g['money'] = True
    g['r'] = [rng.choice([0.01, 0.02, 0.025, 0.04]) for _ in range(n)]
    g.pop('bonds', None)
    c = [c_ for c_ in z['countries'] if c_['role'] != 'central'][0]
    c['firm'] = {'form': 'fixed', 'margin': rng.choice([0.1, 0.2])}
    c['cap'] = dict(c.get('cap') or {'ai': 0.6, 'af': 0.2}, portfolio_share=True)
    c['second_market'] = None
    spec['imports'] = [i for i in spec['imports'] if i['market'] != c['key'] and i['supplier'] != c['key']]
    hh = c['hh']
    hh['portfolio'] = 'share_at_declaration'
    hh['share'] = rng.choice([0.25, 0.6])
    hh.pop('bond_share', None)
    hh['F0'] = hh['F0'] or float(rng.randint(40, 120))
    return True


def ensure_cross_import(rng, spec):
    """At least one market supplied from another currency zone (needs >= 2 zones and the external sector)."""
    if len(spec['zones']) < 2 or not spec['ext'] or spec['imports']:
        return spec
    za, zb = spec['zones'][0], spec['zones'][1]
    a = [c for c in za['countries'] if c['role'] != 'central'][0]
    b = [c for c in zb['countries'] if c['role'] != 'central'][0]
    if rng.random() < 0.5:
        a, b = b, a
    spec['imports'].append({'market': a['key'], 'supplier': b['key'], 'mu': rng.choice([0.05, 0.1, 0.2])})
    return spec


def add_param_chain(rng, spec, length=None):
    """A chain of scalar parameters running through several sectors: the first is a literal, each further one is the
    previous one (another sector's variable, addressed by its requested name) plus a constant.  Their time-zero values
    have to be resolved whatever the order in which the sectors - and hence the equations - are declared."""
    cands = []
    for z in spec['zones']:
        for c in z['countries']:
            if c['role'] == 'central':
                cands.append([c['key'], 'GOVLIKE'])
            else:
                cands += [[c['key'], 'HH'], [c['key'], 'BUS'], [c['key'], 'TF'], [c['key'], 'GOOD'], [c['key'], 'LAB']]
                if c['role'] == 'single':
                    cands.append([c['key'], 'GOVLIKE'])
    n = length or rng.randint(3, 6)
    rng.shuffle(cands)
    spec['param_chain'] = {'sectors': cands[:n], 'base': rng.choice(['0.02', '1.5', '0.25']),
                           'steps': [rng.choice(['0.01', '0.5', '2.0']) for _ in range(n)]}
    return spec


def gov_code(form):
    return 'TRE' if form in ('treasury_cb', 'gold_cb') else 'GOV'


class Built(object):
    def __init__(self):
        self.shared_weightings = {}
        self.weightings_reused = 0
        self.model = None
        self.countries = {}      # key -> Country
        self.sectors = {}        # (key, role) -> Sector
        self.zone_of = {}        # key -> cur
        self.gov_of = {}         # cur -> (key, role) of the sector that receives taxes / spends
        self.flows = []          # descriptive records
        self.names_handed = []   # (alias or name, sector, local) requested before main()
        self.error = None
        self.V = None
        self.order = {}


def linear_extension(rng, steps, first=()):
    """steps: list of (name, deps, fn); random order respecting deps; names in `first` are taken as early as their deps allow."""
    remaining = list(steps)
    if first:
        remaining.sort(key=lambda st: 0 if st[0] in first else 1)
        rng = None
    done = set()
    order = []
    while remaining:
        ready = [s for s in remaining if all(d in done for d in s[1])]
        s = rng.choice(ready) if rng is not None else ready[0]
        order.append(s)
        done.add(s[0])
        remaining.remove(s)
    return order


def build(spec, model=None, **kw):
    """Wrapper: an exception of the real constructors / wiring calls becomes Built.error (never a monitor crash)."""
    holder = Built()
    try:
        return _build(spec, model=model, holder=holder, **kw)
    except Exception as e:
        holder.error = e
        holder.construction_failed = True
        return holder


def _build(spec, model=None, holder=None, order_seed=None, codes=None, ckey_map=None, solve=True, ext_first=None,
          max_iter=3000, unused_ext=False, tol=None, order_perm=None, codes_after_first_country=False,
           query_zone=False, interleave_model=False, region_default_currency=False, run_via_steps=False,
           mutate_returned_lists=False, dup_country_attempts=False, overwrite_currency_member=False,
           log_info_after_every_country=False, extra_rule=None, fresh_currency_strings=False,
           declare_first=()):
    """Build (and solve) the model described by spec with the REAL classes.

    order_seed: None = canonical declaration order; int = a random linear extension per country.
    codes: {ckey: {role: code}} overrides of sector/market codes; ckey_map: {ckey: country code}.
    model: an existing Model to embed into (ExternalSector handling is then the caller's business).
    """
    from sfc_models.models import Model, Country, Region
    from sfc_models.sector import Market
    from sfc_models.sector_definitions import (Household, HouseholdWithExpectations, Capitalists,
                                               ConsolidatedGovernment, Treasury, CentralBank, FixedMarginBusiness,
                                               FixedMarginBusinessMultiOutput, TaxFlow, MoneyMarket, DepositMarket,
                                               GoldStandardGovernment, GoldStandardCentralBank)
    from sfc_models.external import ExternalSector
    b = holder if holder is not None else Built()
    own_model = model is None
    mod = Model() if own_model else model
    b.model = mod
    rng = random.Random(order_seed) if order_seed is not None else None
    ckey_map = ckey_map or {}
    codes = codes or {}

    def code(ckey, role):
        return codes.get(ckey, {}).get(role, DEFAULT_CODES[role])
    if own_model and (spec['ext'] or unused_ext):
        if ext_first is None:
            ext_first = True
        if ext_first:
            ExternalSector(mod)
    S = b.sectors
    wiring = []
    from sfc_models.sector import Sector as _Sector

    class Donor(_Sector):
        """User-defined sector: books its outflow in the constructor."""

        def __init__(self, country, code, amount, is_income):
            _Sector.__init__(self, country, code, 'Donor', has_F=True)
            self.AddVariable('GRANT', 'Grant paid', amount)
            self.AddCashFlow('-GRANT', is_income=is_income)

    class Recipient(_Sector):
        """User-defined sector: books the matching inflow in the constructor (name requested before main())."""

        def __init__(self, country, code, donor, is_income):
            _Sector.__init__(self, country, code, 'Recipient', has_F=True)
            self.AddCashFlow('+' + donor.GetVariableName('GRANT'), is_income=is_income)
    for z in spec['zones']:
        g = z['gov']
        central_key = [c['key'] for c in z['countries'] if c['role'] in ('single', 'central')][0]
        for c in z['countries']:
            ck = c['key']
            ccode = ckey_map.get(ck, ck)
            cls = Country if c['role'] == 'single' else Region
            if interleave_model:
                Model()      # an unrelated (empty) model object is instantiated in between
            if region_default_currency and c['role'] == 'region':
                # as the bundled REG2 model does: a Region inherits the currency of the country added just before it
                country = cls(mod, ccode, 'Country ' + ccode)
            else:
                # fresh_currency_strings: the currency name reaches every constructor as a string object of its own, as names
                # built at run time (renaming functions, parsed text) do
                country = cls(mod, ccode, 'Country ' + ccode, currency=(''.join(list(z['cur'])) if fresh_currency_strings else z['cur']))
            b.countries[ck] = country
            b.zone_of[ck] = z['cur']
            if overwrite_currency_member:
                # caller code writes another registered currency's code into the Country.Currency data member after
                # construction; documented as having no effect (zone membership defines the currency)
                curs = [zz['cur'] for zz in spec['zones']]
                country.Currency = curs[(curs.index(z['cur']) + 1) % len(curs)]
                b.currency_members_overwritten = getattr(b, 'currency_members_overwritten', 0) + (country.Currency != z['cur'])
            if dup_country_attempts:
                # a get-or-create helper of the caller tries to create the country again (another currency); the package
                # refuses the duplicate and the caller carries on with the same model
                try:
                    Country(mod, ccode, 'duplicate of ' + ccode, currency='ZZZ')
                    b.dup_attempts_accepted = getattr(b, 'dup_attempts_accepted', 0) + 1
                except Exception:
                    b.dup_attempts_refused = getattr(b, 'dup_attempts_refused', 0) + 1
            steps = []
            if c['role'] in ('single', 'central'):
                if g['form'] == 'consolidated':
                    steps.append(('GOV', [], lambda country=country, ck=ck: S.__setitem__(
                        (ck, 'GOV'), ConsolidatedGovernment(country, code(ck, 'GOV'), 'Government'))))
                elif g['form'] == 'gold':
                    steps.append(('GOV', [], lambda country=country, ck=ck, g=g: S.__setitem__(
                        (ck, 'GOV'), GoldStandardGovernment(country, code(ck, 'GOV'), 'Gold gov',
                                                            initial_gold_stock=g['gold_stock']))))
                elif g['form'] == 'gold_cb':
                    steps.append(('TRE', [], lambda country=country, ck=ck: S.__setitem__(
                        (ck, 'TRE'), Treasury(country, code(ck, 'TRE'), 'Treasury'))))
                    steps.append(('CB', ['TRE'], lambda country=country, ck=ck, g=g: S.__setitem__(
                        (ck, 'CB'), GoldStandardCentralBank(country, code(ck, 'CB'), 'Gold central bank',
                                                            treasury=S[(ck, 'TRE')],
                                                            initial_gold_stock=g['gold_stock']))))
                else:
                    steps.append(('TRE', [], lambda country=country, ck=ck: S.__setitem__(
                        (ck, 'TRE'), Treasury(country, code(ck, 'TRE'), 'Treasury'))))
                    steps.append(('CB', ['TRE'], lambda country=country, ck=ck: S.__setitem__(
                        (ck, 'CB'), CentralBank(country, code(ck, 'CB'), 'Central Bank', treasury=S[(ck, 'TRE')]))))
                gc = gov_code(g['form'])
                b.gov_of[z['cur']] = (ck, gc)
                steps.append(('TF', [], lambda country=country, ck=ck, g=g, gc=gc: S.__setitem__(
                    (ck, 'TF'), TaxFlow(country, code(ck, 'TF'), 'TaxFlow', taxrate=g['tax'],
                                        taxes_paid_to=code(ck, gc)))))
            amk = g.get('asset_markets_in') or central_key
            if ck == amk:
                gc0 = gov_code(g['form'])
                if g['money']:
                    issuer = 'CB' if g['form'] in ('treasury_cb', 'gold_cb') else 'GOV'
                    steps.append(('MON', [], lambda country=country, issuer=issuer, ckc=central_key: S.__setitem__(
                        (ckc, 'MON'), MoneyMarket(country, issuer_short_code=code(ckc, issuer)))))
                if g.get('bonds'):
                    steps.append(('BOND', [], lambda country=country, gc0=gc0, ckc=central_key: S.__setitem__(
                        (ckc, 'BOND'), DepositMarket(country, code='BOND', long_name='Bonds',
                                                     issuer_short_code=code(ckc, gc0)))))
                if g['deposits']:
                    steps.append(('DEP', [], lambda country=country, gc0=gc0, ckc=central_key: S.__setitem__(
                        (ckc, 'DEP'), DepositMarket(country, issuer_short_code=code(ckc, gc0)))))
            if c['role'] in ('single', 'region'):
                hh = c['hh']
                hcls = Household if hh['form'] == 'Household' else HouseholdWithExpectations
                at_decl = hh.get('portfolio') == 'share_at_declaration'
                rule_obj = {'DEP': repr(hh.get('share', 0.5))} if at_decl else None

                def declare_hh(country=country, ck=ck, hh=hh, hcls=hcls, rule_obj=rule_obj):
                    S[(ck, 'HH')] = hcls(country, code(ck, 'HH'), 'Household', alpha_income=hh['ai'], alpha_fin=hh['af'],
                                         consumption_good_name=code(ck, 'GOOD'), labour_name=code(ck, 'LAB'))
                    if rule_obj is not None:
                        S[(ck, 'HH')].GenerateAssetWeighting(rule_obj, 'MON')
                steps.append(('HH', [], declare_hh))
                if c.get('cap'):
                    def declare_cap(country=country, ck=ck, cp=c['cap'], rule_obj=rule_obj):
                        S[(ck, 'CAP')] = Capitalists(country, code(ck, 'CAP'), 'Capitalists', alpha_income=cp['ai'],
                                                     alpha_fin=cp['af'], consumption_good_name=code(ck, 'GOOD'))
                        if rule_obj is not None and cp.get('portfolio_share'):
                            S[(ck, 'CAP')].GenerateAssetWeighting(rule_obj, 'MON')
                            b.weightings_reused += 1
                    steps.append(('CAP', [], declare_cap))
                if c.get('saver'):
                    # a plain sector that holds deposits (a share of its assets) and says nothing about money
                    def declare_saver(country=country, ck=ck, sv=c['saver']):
                        sec_ = _Sector(country, 'SAV', 'Saver', has_F=True)
                        sec_.AddVariable('DEM_DEP', 'deposits held', '%r*F' % (sv['share'],))
                        sec_.AddInitialCondition('F', sv['F0'])
                        S[(ck, 'SAV')] = sec_
                    steps.append(('SAV', [], declare_saver))
                steps.append(('LAB', [], lambda country=country, ck=ck: S.__setitem__(
                    (ck, 'LAB'), Market(country, code(ck, 'LAB'), 'Labour market'))))
                steps.append(('GOOD', [], lambda country=country, ck=ck: S.__setitem__(
                    (ck, 'GOOD'), Market(country, code(ck, 'GOOD'), 'Goods market'))))
                if c.get('custom'):
                    cu = c['custom']
                    steps.append(('DONOR', [], lambda country=country, ck=ck, cu=cu: S.__setitem__(
                        (ck, 'DONOR'), Donor(country, 'DONOR', cu['grant'], cu['inc_donor']))))
                    steps.append(('RECIP', ['DONOR'], lambda country=country, ck=ck, cu=cu: S.__setitem__(
                        (ck, 'RECIP'), Recipient(country, 'RECIP', S[(ck, 'DONOR')], cu['inc_recipient']))))
                if c.get('second_market'):
                    steps.append(('SRV', [], lambda country=country, ck=ck: S.__setitem__(
                        (ck, 'SRV'), Market(country, code(ck, 'SRV'), 'Services market'))))
                f = c['firm']
                if f['form'] == 'fixed':
                    steps.append(('BUS', [], lambda country=country, ck=ck, f=f: S.__setitem__(
                        (ck, 'BUS'), FixedMarginBusiness(country, code(ck, 'BUS'), 'Business', profit_margin=f['margin'],
                                                         labour_input_name=code(ck, 'LAB'),
                                                         output_name=code(ck, 'GOOD')))))
                else:
                    has2 = bool(c.get('second_market'))
                    steps.append(('BUS', ['GOOD'] + (['SRV'] if has2 else []), lambda country=country, ck=ck, f=f, has2=has2: S.__setitem__(
                        (ck, 'BUS'), FixedMarginBusinessMultiOutput(country, code(ck, 'BUS'), 'Business',
                                                                    profit_margin=f['margin'],
                                                                    labour_input_name=code(ck, 'LAB'),
                                                                    market_list=[S[(ck, 'GOOD')]] + ([S[(ck, 'SRV')]] if has2 else [])))))
                    wiring.append(lambda ck=ck: S[(ck, 'GOOD')].AddSupplier(S[(ck, 'BUS')]))
                if c.get('second_market'):
                    wiring.append(lambda ck=ck: S[(ck, 'SRV')].AddSupplier(S[(ck, 'BUS')]))
            if order_perm and ck in order_perm:
                by_name = {st[0]: st for st in steps}
                ordered = [by_name[n] for n in order_perm[ck]]
                assert len(ordered) == len(steps)
            else:
                ordered = linear_extension(rng, steps, first=declare_first)
            b.order.setdefault(ck, [st[0] for st in ordered])
            for name, deps, fn in ordered:
                fn()
                if query_zone:
                    # the public zone API is used while the model is still being put together
                    country.CurrencyZone.GetSectors()
                    try:
                        country.CurrencyZone.LookupSector(code(ck, 'HH'))
                    except Exception:
                        pass
            if interleave_model:
                # another, unrelated model is created while this one is under construction
                other = Model()
                oc = Country(other, 'ZZ', 'unrelated', currency='ZZZ')
                Household(oc, 'HH', 'unrelated household')
            if log_info_after_every_country:
                # the public diagnostic dump is called every time a country has been put together
                mod.LogInfo()
                b.log_info_calls = getattr(b, 'log_info_calls', 0) + 1
            if codes_after_first_country and not getattr(b, '_early_codes_done', False):
                # a user dumps / inspects the model mid-construction (Model.LogInfo() does this): full codes are
                # generated while the model has fewer countries than it will end up with
                b._early_codes_done = True
                mod._GenerateFullSectorCodes()
    if own_model and (spec['ext'] or unused_ext) and not ext_first:
        ExternalSector(mod)
    if spec.get('row') and mod.ExternalSector is not None:
        from sfc_models.sector import Sector as _Sec
        S[('EXT', 'ROW')] = _Sec(mod.ExternalSector, 'ROW', 'Rest of the world', has_F=True)
        b.countries['EXT'] = mod.ExternalSector
        b.zone_of['EXT'] = 'NUMERAIRE'
    # ---- wiring (after all declarations)
    for w in wiring:
        w()
    if extra_rule is not None:
        # a reporting variable written with local names only; 'shared': ONE Equation object is handed to the households of every
        # economy, 'own': every household gets an Equation object of its own
        from sfc_models.equation import Equation as _Eq
        mk = lambda: _Eq('SAVE_RULE', 'saving rule (reporting only)', '0.25*F + 0.125*INC')
        one = mk()
        for (ck_, role_), sec_ in sorted(S.items(), key=lambda kv: kv[0]):
            if role_ == 'HH':
                sec_.AddVariableFromEquation(one if extra_rule == 'shared' else mk())
                b.extra_rule_holders = getattr(b, 'extra_rule_holders', 0) + 1
    ext = mod.ExternalSector
    for z in spec['zones']:
        g = z['gov']
        gkey, gc = b.gov_of[z['cur']]
        gov = S[(gkey, gc)]
        if z['xr'] is not None and ext is not None:
            ext['XR'].SetExogenous(z['cur'], list(z['xr']))
        if g['deposits'] and g['r'] is not None:
            S[(gkey, 'DEP')].SetExogenous('r', list(g['r']))
        if g.get('bonds'):
            S[(gkey, 'BOND')].SetExogenous('r', list(g['rb']))
        if g.get('tre_cash') is not None:
            S[(gkey, 'TRE')].SetExogenous('DEM_MON', list(g['tre_cash']))
        regions = [c for c in z['countries'] if c['role'] != 'central']
        dem_terms = []
        for c in regions:
            ck = c['key']
            good = S[(ck, 'GOOD')]
            gcode = code(ck, 'GOOD')
            if c['role'] == 'single':
                if gcode == 'GOOD':
                    gov.SetExogenous('DEM_GOOD', list(c['G']))
                else:
                    gov.AddVariable('DEM_' + gcode, 'Demand for ' + gcode, '')
                    gov.SetEquationRightHandSide('DEM_GOOD', 'DEM_' + gcode)
                    gov.SetExogenous('DEM_' + gcode, list(c['G']))
            else:
                ccode = ckey_map.get(ck, ck)
                v = 'DEM_%s_%s' % (ccode, gcode)
                gov.AddVariable(v, 'Demand for goods in ' + ccode, '')
                gov.SetExogenous(v, list(c['G']))
                dem_terms.append(v)
            if c.get('second_market'):
                srv = S[(ck, 'SRV')]
                scode = code(ck, 'SRV')
                v2 = 'DEM_' + (scode if c['role'] == 'single' else '%s_%s' % (ckey_map.get(ck, ck), scode))
                gov.AddVariable(v2, 'Government demand for services', '')
                gov.SetExogenous(v2, list(c['second_market']['G2']))
                if c['second_market'].get('hh_share'):
                    hh2 = S[(ck, 'HH')]
                    hh2.AddVariable('DEM_' + scode, 'Household demand for services', '%r * AfterTax' % (c['second_market']['hh_share'],))
                    mod.AddCashFlowIncomeExclusion(hh2, 'DEM_' + scode)
            hh = S[(ck, 'HH')]
            hs = c['hh']
            if hs['F0'] is not None:
                hh.AddInitialCondition('F', hs['F0'])
            if hs.get('own_tax') is not None:
                hh.AddVariable('TaxRate', 'Sector-specific tax rate', repr(hs['own_tax']))
            if hs['portfolio']:
                dep = S[(gkey, 'DEP')]
                bs = hs.get('bond_share') if g.get('bonds') else None
                if hs['portfolio'] == 'share_at_declaration':
                    pass        # declared together with the sector (see the declaration steps)
                elif hs['portfolio'] == 'share' and bs:
                    # three assets through the library's weighting helper: deposits, bonds, money as the residual
                    if hs.get('weights_as_numbers_then_shifted'):
                        # weights handed over as Python numbers; later a portfolio-shift experiment overrides one of them with a path
                        hh.GenerateAssetWeighting({'DEP': hs['share'] * 0.5, 'BOND': bs}, 'MON')
                        w0 = hs['share'] * 0.5
                        hh.SetExogenous('WGT_DEP', [w0, w0] + [w0 + 0.125] * (spec['maxtime'] + 2))
                        b.weights_shifted = getattr(b, 'weights_shifted', 0) + 1
                    else:
                        hh.GenerateAssetWeighting({'DEP': repr(hs['share'] * 0.5), 'BOND': repr(bs)}, 'MON')
                elif hs['portfolio'] == 'share':
                    if hs['share'] == 0.5:
                        # the holder declares the lag of its own deposit holding itself (as a portfolio rule built on
                        # last period's holding would): the deposit market must still pay it interest
                        hh.AddVariable('LAG_DEM_DEP', 'Lagged deposit holding (declared by the holder)', 'DEM_DEP(k-1)')
                        b.predeclared_lag = getattr(b, 'predeclared_lag', 0) + 1
                    hh.AddVariable('DEM_DEP', 'Demand for deposits', '%r * F' % (hs['share'],))
                    if g['money']:
                        hh.AddVariable('DEM_MON', 'Demand for money', '%r * F' % (1.0 - hs['share'],))
                else:
                    hh.AddVariable('L0', 'lambda_0', '0.635')
                    hh.AddVariable('L1', 'lambda_1', '5.')
                    hh.AddVariable('L2', 'lambda_2', '.01')
                    r = dep.GetVariableName('r')
                    b.names_handed.append((r, dep, 'r'))
                    # households of one zone hand the SAME weighting dict object to the library (a caller re-using its
                    # portfolio rule)
                    wkey = (gkey, r, bs)
                    if wkey not in b.shared_weightings:
                        b.shared_weightings[wkey] = {'DEP': 'L0 + L1 * {0} - L2 * (AfterTax/F)'.format(r)}
                        if bs:
                            b.shared_weightings[wkey] = {'DEP': '0.5 * (L0 + L1 * {0} - L2 * (AfterTax/F))'.format(r),
                                                         'BOND': repr(bs)}
                    else:
                        b.weightings_reused += 1
                    hh.GenerateAssetWeighting(b.shared_weightings[wkey], 'MON')
                    hh.AddInitialCondition('AfterTax', hs['F0'])
        if dem_terms:
            gov.SetEquationRightHandSide('DEM_GOOD', ' + '.join(dem_terms))
        for imp in z.get('internal_imports', []):
            add_import(b, imp, code, ckey_map)
        for cb in z.get('cross_buy', []):
            buyer = S[(cb['buyer'], 'HH')]
            var = 'DEM_%s_%s' % (ckey_map.get(cb['market'], cb['market']), code(cb['market'], 'GOOD'))
            buyer.AddVariable(var, 'Purchases in the goods market of another region', '%r * AfterTax' % (cb['share'],))
            mod.AddCashFlowIncomeExclusion(buyer, var)
    for imp in spec['imports']:
        add_import(b, imp, code, ckey_map)
    gift_var = {}
    per_sector = {}
    for i, gf in enumerate(spec['gifts']):
        src = sector_for(b, gf['src'])
        dst = sector_for(b, gf['dst'])
        if gf.get('same_var_as') is not None and gf['same_var_as'] in gift_var:
            var = gift_var[gf['same_var_as']]
        else:
            # variable names repeat across sectors (GIFT_a, GIFT_b, ... per source sector): flows of different
            # economies may well carry the same local name
            n = per_sector.get(id(src), 0)
            per_sector[id(src)] = n + 1
            var = 'GIFT_' + 'abcdefgh'[n]
            src.AddVariable(var, 'A gift', gf['amount'] if gf.get('amount') is not None else '2.0')
        gift_var[gf.get('id', i)] = var
        mod.RegisterCashFlow(src, dst, var, is_income_source=gf['inc_src'], is_income_dest=gf['inc_dst'])
        b.flows.append({'kind': 'gift', 'src': src, 'dst': dst, 'var': var, 'spec': gf})
    pc = spec.get('param_chain')
    if pc:
        prev = None
        for i, ref in enumerate(pc['sectors']):
            try:
                sec = sector_for(b, ref)
            except KeyError:
                continue
            var = 'PCH%d' % i
            if prev is None:
                sec.AddVariable(var, 'first link of a parameter chain', pc['base'])
            else:
                sec.AddVariable(var, 'link of a parameter chain', '%s + %s' % (prev[0].GetVariableName(prev[1]), pc['steps'][i]))
            prev = (sec, var)
    if mutate_returned_lists:
        # a caller prunes / empties the lists the getters hand out (for a report, say): that is the caller's copy
        for sec in list(S.values()):
            for getter in (sec.GetVariables, sec.EquationBlock.GetEquationList):
                try:
                    lst = getter()
                    if isinstance(lst, list):
                        del lst[:]
                except Exception:
                    pass
        for getter in (mod.GetSectors,):
            lst = getter()
            if isinstance(lst, list):
                del lst[:]
        for cz in list(getattr(mod, 'CurrencyZoneList', [])):
            lst = cz.GetSectors()
            if isinstance(lst, list):
                del lst[:]
        b.lists_mutated = True
    mod.MaxTime = spec['maxtime']
    mod.EquationSolver.MaxIterations = max_iter
    if tol is not None:
        mod.EquationSolver.ParameterErrorTolerance = tol
    if solve and own_model:
        run_main(b, via_steps=run_via_steps)
    return b


def run_main(b, via_steps=False):
    try:
        with contextlib.redirect_stdout(io.StringIO()):
            if via_steps:
                # the alternative public route: the step list the GUI works through, run to the end
                b.model._GetSteps()
                b.model._RunAllSteps()
            else:
                b.model.main()
        b.V = b.model.EquationSolver.TimeSeries
    except Exception as e:
        b.error = e
    return b


def sector_for(b, ref):
    ck, role = ref
    if role == 'GOVLIKE':
        for r in ('GOV', 'TRE'):
            if (ck, r) in b.sectors:
                return b.sectors[(ck, r)]
    return b.sectors[(ck, role)]


def add_import(b, imp, code, ckey_map):
    mk, sk = imp['market'], imp['supplier']
    market = b.sectors[(mk, 'GOOD')]
    firm = b.sectors[(sk, 'BUS')]
    hh = b.sectors[(mk, 'HH')]
    if imp.get('residual_foreign'):
        home = b.sectors[(mk, 'BUS')]
        market.AddVariable('HS', 'Share of demand supplied at home', repr(imp['home_share']))
        market.AddSupplier(home, 'HS*DEM_' + market.Code)
        market.AddSupplier(firm)          # no equation: the foreign firm is the residual supplier
        if hasattr(firm, 'AddMarket'):
            firm.AddMarket(market)
        b.flows.append({'kind': 'import', 'market': market, 'supplier': firm, 'mu': None, 'spec': imp})
        return
    if 'MU' not in market.EquationBlock:
        market.AddVariable('MU', 'Propensity to import', repr(imp['mu']))
        muvar = 'MU'
    else:
        muvar = 'MU_' + ckey_map.get(sk, sk)
        market.AddVariable(muvar, 'Propensity to import from ' + sk, repr(imp['mu']))
    inc = hh.GetVariableName('INC')
    b.names_handed.append((inc, hh, 'INC'))
    market.AddSupplier(firm, '%s*%s' % (muvar, inc))
    if hasattr(firm, 'AddMarket'):
        firm.AddMarket(market)
    b.flows.append({'kind': 'import', 'market': market, 'supplier': firm, 'mu': imp['mu'], 'spec': imp})


def shape_of(spec):
    parts = []
    for z in spec['zones']:
        f = z['gov']['form'][:4] + ('+m' if z['gov']['money'] else '') + ('+d' if z['gov']['deposits'] else '') + \
            ('+b' if z['gov'].get('bonds') else '')
        regs = [c for c in z['countries'] if c['role'] != 'central']
        firms = ''.join(sorted(set(c['firm']['form'][0] + ('c' if c.get('cap') else ('r' if c['firm'].get('margin') else '')) + ('u' if c.get('custom') else '') +
                                   (('2h' if c['second_market'].get('hh_share') else '2') if c.get('second_market') else '')
                                   for c in regs)))
        port = ''.join(sorted(set((c['hh']['portfolio'] or '-')[0] for c in regs)))
        parts.append('%s:%s:%s:%s' % ('fed' if z['kind'] == 'federation' else 'one', f, firms, port))
    return '|'.join(parts) + ('|ext' if spec['ext'] else '') + ('|g%d' % len(spec['gifts'])) + \
        ('|i%d' % len(spec['imports'])) + ('|row' if spec.get('row') else '') + \
        ('|pchain%d' % len(spec['param_chain']['sectors']) if spec.get('param_chain') else '')
