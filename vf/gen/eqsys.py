"""Random equation systems as data, rendered to the block syntax the parser documents.

spec = {
  'simul':   [{'name', 'const', 'coef': {var: a}, 'nl': text|None}],      x_i = const + sum a*var (+ nl)
  'lags':    [{'name', 'src'}],                                             LAG = src(k-1)
  'exos':    [{'name', 'form': 'list'|'tuple'|'expr'|'scalar', 'values': [...], 'text': str}],
  'consts':  [{'name', 'value'}],
  'aliases': [{'name', 'target'}],                                          name = target
  'decos':   [{'name', 'expr'}],                                            derived-only
  'ics':     {name: value},
  'time':    None | {'name': 't', 'expr': '1950. + k'},
  'maxtime': int, 'tol': float|None, 'style': {...}
}
Variables in 'coef' may be simul vars, lag names, exo names, const names or alias names.
"""
import builtins
import keyword
import math

RESERVED = set(['self', 'None', 'k'] + keyword.kwlist + dir(builtins) + dir(math))
BASES = ['x', 'y', 'z', 'w', 'u', 'v', 'q', 'r', 's', 'p', 'h', 'g', 'c', 'm', 'n', 'Y', 'C', 'G', 'H', 'YD',
         'HH__F', 'HH__INC', 'GOV__T', 'BUS__F', 'CA_HH__F', 'xx', 'x1', 'x_1', 'xy', 'yx', 'LAG', 'F', 'INC']


def fresh_names(rng, n, avoid=()):
    out = []
    used = set(avoid)
    tries = 0
    while len(out) < n:
        tries += 1
        b = rng.choice(BASES)
        if rng.random() < 0.35 or tries > 40:
            b = b + rng.choice(['_', '', '_a', '2', '_N', 'x']) + str(rng.randint(0, 99))
        if b in used or b in RESERVED or b in ('t', 't_minus_1', 'MaxTime', 'Err_Tolerance') or \
                'exogenous' in b.lower():
            continue
        used.add(b)
        out.append(b)
    return out


def nice(rng, lo, hi):
    """A float with a short decimal spelling in [lo, hi]."""
    v = rng.uniform(lo, hi)
    return float('%.*g' % (rng.choice([2, 3, 3, 4, 6]), v))


def gen_affine(rng, n_simul=None, rho=None, n_lag=None, n_exo=None, maxtime=None, tol=None,
               aliases=True, decos=True, nonlinear=False, ics=True, const_scale=None, cyclic=True):
    n = n_simul if n_simul is not None else rng.randint(1, 8)
    rho = rho if rho is not None else rng.choice([0.05, 0.2, 0.5, 0.5, 0.8, 0.9, 0.95])
    n_lag = n_lag if n_lag is not None else rng.randint(0, min(3, n))
    n_exo = n_exo if n_exo is not None else rng.randint(0, 2)
    maxtime = maxtime if maxtime is not None else rng.randint(1, 12)
    cs = const_scale if const_scale is not None else rng.choice([1.0, 10.0, 100.0, 1e3, 1e-3, 1e-6])
    n_const = rng.randint(0, 2)
    names = fresh_names(rng, n + n_exo + n_const)
    xs, exo_names, const_names = names[:n], names[n:n + n_exo], names[n + n_exo:]
    lag_src = rng.sample(xs, n_lag)
    lags = [{'name': 'LAG_' + s, 'src': s} for s in lag_src]
    exos = []
    for e in exo_names:
        form = rng.choice(['list', 'list', 'tuple', 'expr', 'scalar'])
        if form == 'scalar':
            v = nice(rng, 0.5, 20.0)
            exos.append({'name': e, 'form': 'scalar', 'values': [v] * (maxtime + 1), 'text': repr(v)})
        elif form == 'expr':
            a, b = nice(rng, 0.5, 20.0), nice(rng, 0.5, 20.0)
            cut = rng.randint(0, maxtime)
            extra = rng.randint(0, 5)
            vals = [a] * cut + [b] * (maxtime + 1 - cut + extra)
            exos.append({'name': e, 'form': 'expr', 'values': vals,
                         'text': '[%r,]*%d + [%r]*%d' % (a, cut, b, maxtime + 1 - cut + extra)})
        else:
            extra = rng.randint(0, 4)
            vals = [nice(rng, 0.5, 20.0) for _ in range(maxtime + 1 + extra)]
            if rng.random() < 0.3:
                vals = [float(int(v)) for v in vals]
            txt = repr(vals) if form == 'list' else repr(tuple(vals))
            exos.append({'name': e, 'form': form, 'values': vals, 'text': txt})
    consts = [{'name': c, 'value': nice(rng, 0.1, 5.0)} for c in const_names]
    simul = []
    beta = (1.0 - rho) * 0.9
    for i, x in enumerate(xs):
        coef = {}
        if cyclic:
            others = [y for y in xs if y != x] or [x]
            k = rng.randint(1, min(3, len(others)))
            picks = rng.sample(others, k)
            if rng.random() < 0.2:
                picks.append(x)  # self reference
        else:
            picks = rng.sample(xs[:i], min(i, rng.randint(0, 2)))  # strictly lower triangular
        if picks:
            w = [rng.random() + 0.1 for _ in picks]
            tot = sum(w)
            row = rho * rng.choice([1.0, 1.0, 0.7, 0.3])
            for p, wi in zip(picks, w):
                a = row * wi / tot * rng.choice([1, 1, 1, -1])
                coef[p] = float('%.4g' % a) if abs(a) > 1e-4 else 0.0
        if lags and rng.random() < 0.7:
            lg = rng.choice(lags)['name']
            coef[lg] = float('%.3g' % (beta * rng.uniform(0.2, 1.0) * rng.choice([1, 1, -1])))
        if exos and rng.random() < 0.6:
            coef[rng.choice(exo_names)] = float('%.3g' % rng.uniform(-1.0, 2.0))
        if consts and rng.random() < 0.4:
            coef[rng.choice(const_names)] = float('%.3g' % rng.uniform(-1.0, 2.0))
        coef = {k_: v for k_, v in coef.items() if v != 0.0}
        simul.append({'name': x, 'const': nice(rng, -1.0, 1.0) * cs if rng.random() < 0.85 else 0.0,
                      'coef': coef, 'nl': None})
    # every lag source must move: make sure lag sources appear; fine as is.
    spec = {'simul': simul, 'lags': lags, 'exos': exos, 'consts': consts, 'aliases': [], 'decos': [],
            'ics': {}, 'time': None, 'maxtime': maxtime, 'tol': tol, 'rho': rho, 'cyclic': cyclic,
            'style': {'spacing': rng.choice(['tight', 'spaced', 'random']),
                      'lag': rng.choice(['k', 't', 'model']),
                      'marker': rng.choice(['# Exogenous Variables', 'exogenous', 'Exogenous',
                                            '# EXOGENOUS', '#exogenous section']),
                      'shuffle': rng.getrandbits(30), 'comments': rng.random() < 0.4}}
    if nonlinear:
        add_nonlinear(rng, spec)
    if aliases and rng.random() < 0.7:
        add_aliases(rng, spec)
    if decos and rng.random() < 0.7:
        add_decos(rng, spec)
    if rng.random() < 0.25:
        spec['time'] = {'name': 't', 'expr': rng.choice(['1950. + k', 'k', '2*k', 'k/4.'])}
    if ics and rng.random() < 0.6:
        add_ics(rng, spec)
    return spec


def add_nonlinear(rng, spec):
    """Mild, bounded-derivative non-linear terms (|d/dx| <= ~0.1 each)."""
    xs = [s['name'] for s in spec['simul']]
    for s in spec['simul']:
        if rng.random() < 0.5:
            a, b = rng.choice(xs), rng.choice(xs)
            s['nl'] = rng.choice([
                '0.05*{a}*{b}/(1+{a}*{a}+{b}*{b})', '0.05*max({a}, {b})', '0.05*min({a},0.5*{b})',
                '0.04*abs({a})', '0.05*sqrt(1+{a}*{a})', '0.05*exp(-{a}*{a})', '0.05*{a}/(1+abs({b}))',
            ]).format(a=a, b=b)


def all_value_names(spec):
    return ([s['name'] for s in spec['simul']] + [l['name'] for l in spec['lags']] +
            [e['name'] for e in spec['exos']] + [c['name'] for c in spec['consts']] +
            [a['name'] for a in spec['aliases']])


def add_aliases(rng, spec, use_in_equations=True):
    """Alias chains (name = target), optionally used inside simultaneous equations in place of the
    target.  Targets: simul, lag, exo, const variables and earlier aliases (chains up to length 4)."""
    pool = ([s['name'] for s in spec['simul']] + [l['name'] for l in spec['lags']] +
            [e['name'] for e in spec['exos']] + [c['name'] for c in spec['consts']])
    n = rng.randint(1, 4)
    names = fresh_names(rng, n, avoid=all_value_names(spec) + [d['name'] for d in spec['decos']])
    for nm in names:
        if spec['aliases'] and rng.random() < 0.5:
            tgt = rng.choice(spec['aliases'])['name']   # chain
        else:
            tgt = rng.choice(pool)
        spec['aliases'].append({'name': nm, 'target': tgt})
        if use_in_equations and rng.random() < 0.7:
            # replace one use of the (resolved) target in some equation by the alias
            root = resolve_alias(spec, nm)
            cands = [s for s in spec['simul'] if root in s['coef'] and nm not in s['coef']]
            if cands:
                s = rng.choice(cands)
                s['coef'][nm] = s['coef'].pop(root)


def resolve_alias(spec, name):
    amap = {a['name']: a['target'] for a in spec['aliases']}
    seen = 0
    while name in amap and seen < 20:
        name = amap[name]
        seen += 1
    return name


def add_decos(rng, spec):
    """Derived-only variables: chains and trees nothing simultaneous depends on."""
    n = rng.randint(1, 4)
    names = fresh_names(rng, n, avoid=all_value_names(spec) + [d['name'] for d in spec['decos']])
    avail = all_value_names(spec)
    for nm in names:
        k = rng.randint(1, 3)
        picks = [rng.choice(avail) for _ in range(k)]
        terms = []
        for p in picks:
            terms.append('%s*%s' % (repr(nice(rng, 0.5, 3.0)), p))
        expr = ' + '.join(terms)
        if rng.random() < 0.3:
            expr = 'max(%s, %s)' % (expr, repr(nice(rng, 0.0, 2.0)))
        spec['decos'].append({'name': nm, 'expr': expr})
        avail.append(nm)   # later decos may depend on earlier ones (chains/trees)
    rng.shuffle(spec['decos'])  # declaration order independent of dependency order


def add_ics(rng, spec, on_alias=True):
    cands = [s['name'] for s in spec['simul']] + [d['name'] for d in spec['decos']]
    if on_alias:
        cands += [a['name'] for a in spec['aliases']]
    cands += [c['name'] for c in spec['consts']]
    for nm in rng.sample(cands, min(len(cands), rng.randint(1, 3))):
        spec['ics'][nm] = nice(rng, -5.0, 20.0)


def fmt_num(v):
    r = repr(float(v))
    return r


def simul_rhs(s):
    parts = []
    if s['const'] != 0.0 or not s['coef']:
        parts.append(fmt_num(s['const']))
    for var, a in s['coef'].items():
        term = '%s*%s' % (fmt_num(abs(a)), var)
        if parts:
            parts.append(('- ' if a < 0 else '+ ') + term)
        else:
            parts.append(('-' if a < 0 else '') + term)
    out = ' '.join(parts)
    if s.get('nl'):
        out += ' + ' + s['nl']
    return out


def lines_of(spec):
    """[(cls, name, rhs_text)] in canonical order; cls in simul/lag/alias/deco/const/time/ic/exo."""
    lagsty = spec['style']['lag']
    out = []
    for s in spec['simul']:
        out.append(('simul', s['name'], simul_rhs(s)))
    for l in spec['lags']:
        if lagsty == 'k':
            rhs = '%s(k-1)' % l['src']
        elif lagsty == 't':
            rhs = '%s(t-1)' % l['src']
        else:
            rhs = '%s (k -1 )' % l['src']   # the tokenizer-spaced form the model emits
        out.append(('lag', l['name'], rhs))
    for a in spec['aliases']:
        out.append(('alias', a['name'], a['target']))
    for d in spec['decos']:
        out.append(('deco', d['name'], d['expr']))
    for c in spec['consts']:
        out.append(('const', c['name'], fmt_num(c['value'])))
    if spec['time']:
        out.append(('time', spec['time']['name'], spec['time']['expr']))
    return out


def render(spec, rng=None, with_params=True):
    import random as _r
    r = _r.Random(spec['style']['shuffle'])
    body = lines_of(spec)
    r.shuffle(body)
    ic_lines = [('ic', n + '(0)', fmt_num(v)) for n, v in spec['ics'].items()]
    for ic in ic_lines:
        body.insert(r.randint(0, len(body)), ic)
    sty = spec['style']['spacing']

    def eqline(name, rhs):
        if sty == 'tight':
            return '%s=%s' % (name, rhs)
        if sty == 'spaced':
            return '%s = %s' % (name, rhs)
        return '%s%s%s=%s%s' % (' ' * r.randint(0, 3), name, ' ' * r.randint(0, 2), ' ' * r.randint(0, 2), rhs)
    out = []
    for cls, name, rhs in body:
        line = eqline(name, rhs)
        if spec['style']['comments'] and r.random() < 0.5:
            line += '  # [%s] note %d = 3 (0) (k-1)' % (name, r.randint(0, 9))
        out.append(line)
        if spec['style']['comments'] and r.random() < 0.15:
            out.append('# a full-line comment with x = 1')
        if r.random() < 0.1:
            out.append('')
    params = []
    if with_params:
        params.append(eqline('MaxTime', str(spec['maxtime'])))
        if spec['tol'] is not None:
            params.append(eqline('Err_Tolerance', repr(spec['tol'])))
    if r.random() < 0.5:
        out = out + params
        params = []
    if spec['exos'] or r.random() < 0.3:
        out.append(spec['style']['marker'])
        for e in spec['exos']:
            out.append(eqline(e['name'], e['text']))
    out = out + params
    return '\n'.join(out)


# -------------------------------------------------------------------------------------------------
# reference semantics (independent of the repository)
# -------------------------------------------------------------------------------------------------

FUNCS = {'max': max, 'min': min, 'abs': abs, 'sqrt': math.sqrt, 'exp': math.exp, 'log': math.log,
         'float': float, 'pow': pow, 'log10': math.log10, 'sin': math.sin, 'cos': math.cos}


def ev(expr, env, extra=None):
    g = {'__builtins__': {}}
    g.update(FUNCS)
    if extra:
        g.update(extra)
    return eval(expr, g, env)
