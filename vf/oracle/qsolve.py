"""Exact rational re-solution of an emitted equation block.

The text the real code emitted is split by the independent reader (vf.oracle.block); for each period k
every right-hand side is evaluated with Python's own eval over affine forms with Fraction coefficients
(float literals at their exact binary value, lags from the exact solution of k-1, exogenous values from
the emitted lists).  Constants are propagated, the remaining sparse linear system is eliminated exactly.
An equation that is genuinely non-affine is *frozen*: its variable is pinned to the value the real
solver reported (exactly, as a Fraction of that float) and the rest is solved exactly.
"""
import math
from fractions import Fraction

from vf.oracle import block as B


class NonAffine(Exception):
    pass


def _fr(x):
    if isinstance(x, Fraction):
        return x
    if isinstance(x, bool):
        raise NonAffine('bool')
    if isinstance(x, int):
        return Fraction(x)
    if isinstance(x, float):
        return Fraction(x)          # exact binary value; inf/nan raise
    raise NonAffine('not a number: %r' % (x,))


class Aff(object):
    __slots__ = ('c', 't')

    def __init__(self, c=0, t=None):
        self.c = c if isinstance(c, Fraction) else _fr(c)
        self.t = t or {}

    @staticmethod
    def var(name):
        return Aff(Fraction(0), {name: Fraction(1)})

    def is_const(self):
        return not self.t

    @staticmethod
    def lift(x):
        return x if isinstance(x, Aff) else Aff(_fr(x))

    def __add__(self, o):
        o = Aff.lift(o)
        t = dict(self.t)
        for k, v in o.t.items():
            nv = t.get(k, 0) + v
            if nv == 0:
                t.pop(k, None)
            else:
                t[k] = nv
        return Aff(self.c + o.c, t)
    __radd__ = __add__

    def __neg__(self):
        return Aff(-self.c, {k: -v for k, v in self.t.items()})

    def __pos__(self):
        return self

    def __sub__(self, o):
        return self + (-Aff.lift(o))

    def __rsub__(self, o):
        return Aff.lift(o) + (-self)

    def scale(self, f):
        if f == 0:
            return Aff(Fraction(0))
        return Aff(self.c * f, {k: v * f for k, v in self.t.items()})

    def __mul__(self, o):
        o = Aff.lift(o)
        if o.is_const():
            return self.scale(o.c)
        if self.is_const():
            return o.scale(self.c)
        raise NonAffine('product of two unknowns')
    __rmul__ = __mul__

    def __truediv__(self, o):
        o = Aff.lift(o)
        if not o.is_const():
            raise NonAffine('division by an unknown')
        if o.c == 0:
            raise ZeroDivisionError('division by zero in exact evaluation')
        return self.scale(1 / o.c)

    def __rtruediv__(self, o):
        return Aff.lift(o) / self

    def __pow__(self, o):
        o = Aff.lift(o)
        if self.is_const() and o.is_const():
            if o.c.denominator == 1 and abs(o.c.numerator) <= 8:
                return Aff(self.c ** int(o.c))
            return Aff(_fr(float(self.c) ** float(o.c)))
        if o.is_const() and o.c == 1:
            return self
        raise NonAffine('power of an unknown')

    def __rpow__(self, o):
        return Aff.lift(o) ** self

    def _cmp(self, o):
        o = Aff.lift(o)
        if self.is_const() and o.is_const():
            return (self.c > o.c) - (self.c < o.c)
        raise NonAffine('comparison of unknowns')

    def __lt__(self, o):
        return self._cmp(o) < 0

    def __le__(self, o):
        return self._cmp(o) <= 0

    def __gt__(self, o):
        return self._cmp(o) > 0

    def __ge__(self, o):
        return self._cmp(o) >= 0

    def __eq__(self, o):
        try:
            return self._cmp(o) == 0
        except NonAffine:
            raise

    def __ne__(self, o):
        return not self.__eq__(o)

    __hash__ = None

    def __float__(self):
        if self.is_const():
            return float(self.c)
        raise NonAffine('float() of an unknown')

    def __abs__(self):
        if self.is_const():
            return Aff(abs(self.c))
        raise NonAffine('abs of an unknown')


def _wrap(fn):
    def f(*args):
        vals = []
        for a in args:
            a = Aff.lift(a)
            if not a.is_const():
                raise NonAffine('function of an unknown')
            vals.append(float(a.c))
        return Aff(_fr(fn(*vals)))
    return f


def _minmax(pick):
    def f(*args):
        items = [Aff.lift(a) for a in (args[0] if len(args) == 1 and isinstance(args[0], (list, tuple)) else args)]
        if not all(a.is_const() for a in items):
            raise NonAffine('min/max of unknowns')
        return pick(items, key=lambda a: a.c)
    return f


EXACT_FUNCS = {'max': _minmax(max), 'min': _minmax(min), 'abs': abs, 'float': lambda x: Aff.lift(x),
               'pow': lambda a, b: Aff.lift(a) ** b}
for _n in dir(math):
    if not _n.startswith('_') and callable(getattr(math, _n)):
        EXACT_FUNCS[_n] = _wrap(getattr(math, _n))
for _n in ('pi', 'e', 'tau'):
    EXACT_FUNCS[_n] = Aff(_fr(getattr(math, _n)))


def solve_linear(rows):
    """rows: list of (dict var->Fraction, const) meaning sum coef*var + const = 0.  Exact elimination.
    Returns dict var->Fraction.  Raises ValueError when singular/inconsistent."""
    pivots = []   # (var, row dict without var normalised so var + sum coef*other + const = 0)
    solved = {}
    work = [(dict(r), c) for r, c in rows]
    # forward elimination with substitution of earlier pivots
    piv_rows = {}
    order = []
    for r, c in work:
        # substitute known pivots
        changed = True
        while changed:
            changed = False
            for v in list(r.keys()):
                if v in piv_rows and v in r:
                    coef = r.pop(v)
                    pr, pc = piv_rows[v]
                    for kk, vv in pr.items():
                        nv = r.get(kk, 0) + coef * vv
                        if nv == 0:
                            r.pop(kk, None)
                        else:
                            r[kk] = nv
                    c = c + coef * pc
                    changed = True
        if not r:
            if c != 0:
                raise ValueError('inconsistent linear system (residual %s)' % (float(c),))
            continue
        # choose pivot: the variable with the fewest occurrences is not known here; take largest |coef|
        v = max(r, key=lambda kk: abs(r[kk]))
        coef = r.pop(v)
        # v = -(sum r*x + c)/coef  ->  store as v = sum pr*x + pc
        pr = {kk: -vv / coef for kk, vv in r.items()}
        pc = -c / coef
        piv_rows[v] = (pr, pc)
        order.append(v)
    # back substitution
    for v in reversed(order):
        pr, pc = piv_rows[v]
        val = pc
        for kk, vv in pr.items():
            if kk not in solved:
                raise ValueError('under-determined linear system: %s free' % kk)
            val += vv * solved[kk]
        solved[v] = val
    return solved


class ExactSolution(object):
    def __init__(self):
        self.E = {}          # name -> [Fraction per period]
        self.frozen = {}     # name -> periods frozen
        self.periods = 0
        self.names = []

    def val(self, name, k):
        return self.E[name][k]


def qsolve(text, V, funcs=None, k_to=None, blk=None):
    """Exact solution of the emitted block `text`; V = the real solver's series (for k=0 and frozen
    variables).  Returns ExactSolution.  Raises ValueError when the system cannot be solved exactly."""
    blk = blk or B.split_block(text)
    endo = blk['endo']
    lag = blk['lag']
    exo = blk['exo']
    exo_vals = {}
    T = None
    for n, rhs in exo:
        vals = list(B.ev(rhs, {})) if isinstance(rhs, str) else list(rhs)
        exo_vals[n] = vals
    names = [n for n, _ in endo] + [n for n, _ in lag] + [n for n, _ in exo]
    n_per = min(len(V[n]) for n in names if n in V)
    if k_to is None:
        k_to = n_per - 1
    sol = ExactSolution()
    sol.names = names
    for n in names:
        sol.E[n] = [_fr(V[n][0])]
    sol.E['k'] = [Fraction(0)]
    codes = {n: compile(rhs, '<%s>' % n, 'eval') for n, rhs in endo}
    g = {'__builtins__': {}}
    g.update(EXACT_FUNCS)
    if funcs:
        g.update(funcs)
    for k in range(1, k_to + 1):
        known = {'k': Aff(Fraction(k))}
        for n in exo_vals:
            known[n] = Aff(_fr(exo_vals[n][k]))
        for n, src in lag:
            known[n] = Aff(sol.E[src][k - 1])
        unknown = [n for n, _ in endo]
        env = dict(known)
        for n in unknown:
            env[n] = Aff.var(n)
        guard = 0
        while True:
            guard += 1
            if guard > 5000:
                raise ValueError('exact evaluation does not settle')
            changed = False
            forms = {}
            nonaff = []
            for n in unknown:
                if env[n].is_const():
                    continue
                try:
                    f = Aff.lift(eval(codes[n], g, env))
                except NonAffine:
                    nonaff.append(n)
                    continue
                if f.is_const():
                    env[n] = f               # constant propagation
                    changed = True
                else:
                    forms[n] = f
            if changed:
                continue
            if nonaff:
                # freeze one genuinely non-affine equation at the value the real solver reported
                n = nonaff[0]
                if len(nonaff) > 1:
                    # prefer the candidate whose freezing makes the most other equations affine
                    best = None
                    for cand in nonaff:
                        saved = env[cand]
                        env[cand] = Aff(_fr(V[cand][k]))
                        left = 0
                        for m in nonaff:
                            if m == cand:
                                continue
                            try:
                                eval(codes[m], g, env)
                            except NonAffine:
                                left += 1
                        env[cand] = saved
                        if best is None or left < best[0]:
                            best = (left, cand)
                    n = best[1]
                env[n] = Aff(_fr(V[n][k]))
                sol.frozen.setdefault(n, []).append(k)
                continue
            break
        rows = []
        for n, f in forms.items():
            r = {kk: -vv for kk, vv in f.t.items()}
            r[n] = r.get(n, 0) + 1
            r = {kk: vv for kk, vv in r.items() if vv != 0}
            rows.append((r, -f.c))
        solved = solve_linear(rows) if rows else {}
        for n in unknown:
            if n in solved:
                sol.E[n].append(solved[n])
            else:
                v = env[n]
                if not v.is_const():
                    raise ValueError('variable %s undetermined at k=%d' % (n, k))
                sol.E[n].append(v.c)
        for n in exo_vals:
            sol.E[n].append(known[n].c)
        for n, src in lag:
            sol.E[n].append(known[n].c)
        sol.E['k'].append(Fraction(k))
    sol.periods = k_to + 1
    return sol
