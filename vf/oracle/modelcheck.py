"""Offline conservation / clearing / FX checkers over the exact solution of a built model.

All identities are evaluated on E (vf.oracle.qsolve.ExactSolution) with Fractions and must hold exactly.
Expected flows are derived from the *spec* (what was declared), not from the F equations the code wrote.
"""
from fractions import Fraction


class Judge(object):
    def __init__(self, E, k_from, k_to):
        self.E = E
        self.k_from = k_from
        self.k_to = k_to
        self.violations = []
        self.counts = {}
        self.max_flow = Fraction(0)

    def count(self, k, n=1):
        self.counts[k] = self.counts.get(k, 0) + n

    def v(self, name, k):
        return self.E.E[name][k]

    def has(self, name):
        return name in self.E.E

    def violate(self, kind, detail):
        if len(self.violations) < 8:
            detail = dict(detail)
            for kk, vv in list(detail.items()):
                if isinstance(vv, Fraction):
                    detail[kk] = float(vv)
            self.violations.append({'kind': kind, 'mechanism': kind, 'detail': detail})

    def equal_series(self, kind, label, lhs_fn, rhs_fn, k_from=None, ctx=None):
        """lhs_fn(k) == rhs_fn(k) for all judged k; exact."""
        for k in range(k_from if k_from is not None else self.k_from, self.k_to + 1):
            try:
                a, b = lhs_fn(k), rhs_fn(k)
            except KeyError as e:
                self.violate('expected_variable_missing', dict(ctx or {}, identity=label, missing=str(e)))
                return False
            self.count(kind + '.judged')
            if abs(a) > self.max_flow:
                self.max_flow = abs(a)
            if a != b:
                self.violate(kind, dict(ctx or {}, identity=label, k=k, lhs=a, rhs=b, difference=a - b))
                return False
        return True


def vn(b, ck, role, local):
    return b.sectors[(ck, role)].GetVariableName(local)


def xr_name(b, cur):
    return b.model.ExternalSector['XR'].GetVariableName(cur)


def rate(J, b, cur_from, cur_to, k):
    """Units of cur_to per unit of cur_from at period k."""
    if cur_from == cur_to:
        return Fraction(1)
    return J.v(xr_name(b, cur_from), k) / J.v(xr_name(b, cur_to), k)


def gov_role(z):
    return 'TRE' if z['gov']['form'] in ('treasury_cb', 'gold_cb') else 'GOV'


def gold_holder(b, z):
    """(key, role) of the sector that buys gold in this zone, or None."""
    gkey, grole = b.gov_of[z['cur']]
    if z['gov']['form'] == 'gold':
        return (gkey, grole)
    if z['gov']['form'] == 'gold_cb':
        return (gkey, 'CB')
    return None


def expected_flows(b, spec):
    """{(ck, role): [(sign, varname, cur_of_amount)]} derived from the spec; the amount is converted into the
    holder's currency at the period's cross rate."""
    out = {}

    def add(key, sign, name, cur):
        out.setdefault(key, []).append((sign, name, cur))
    for z in spec['zones']:
        cur = z['cur']
        g = z['gov']
        gkey, grole = b.gov_of[cur]
        gk = (gkey, grole)
        add(gk, +1, vn(b, gkey, grole, 'T'), cur)
        add(gk, -1, vn(b, gkey, grole, 'DEM_GOOD'), cur)
        if g['deposits']:
            add(gk, -1, vn(b, gkey, grole, 'INTDEP'), cur)
        if g.get('bonds'):
            add(gk, -1, vn(b, gkey, grole, 'INTBOND'), cur)
        gh = gold_holder(b, z)
        if gh is not None:
            add(gh, -1, vn(b, gh[0], gh[1], 'GOLDPURCHASES'), cur)
        if g['form'] in ('treasury_cb', 'gold_cb'):
            cb = (gkey, 'CB')
            add(gk, +1, vn(b, gkey, 'CB', 'INTDEP'), cur)
            add(cb, +1, vn(b, gkey, 'CB', 'INTDEP'), cur)
            add(cb, -1, vn(b, gkey, 'CB', 'INTDEP'), cur)
        for c in z['countries']:
            if c['role'] == 'central':
                continue
            ck = c['key']
            good = b.sectors[(ck, 'GOOD')].Code
            lab = b.sectors[(ck, 'LAB')].Code
            hh = (ck, 'HH')
            add(hh, +1, vn(b, ck, 'HH', 'SUP_' + lab), cur)
            add(hh, -1, vn(b, ck, 'HH', 'DEM_' + good), cur)
            add(hh, -1, vn(b, ck, 'HH', 'T'), cur)
            if c['hh']['portfolio']:
                add(hh, +1, vn(b, ck, 'HH', 'INTDEP'), cur)
                if g.get('bonds') and c['hh'].get('bond_share'):
                    add(hh, +1, vn(b, ck, 'HH', 'INTBOND'), cur)
            bus = (ck, 'BUS')
            add(bus, -1, vn(b, ck, 'BUS', 'DEM_' + lab), cur)
            if c['firm']['form'] == 'fixed':
                add(bus, +1, vn(b, ck, 'BUS', 'SUP_' + good), cur)
            else:
                add(bus, +1, vn(b, ck, 'GOOD', 'SUP_' + b.sectors[bus].FullCode), cur)
            if c.get('second_market'):
                srv = b.sectors[(ck, 'SRV')]
                local = 'DEM_' + (srv.Code if c['role'] == 'single' else srv.FullCode)
                add(gk, -1, vn(b, gkey, grole, local), cur)
                add(bus, +1, srv.GetVariableName('SUP_' + b.sectors[bus].FullCode), cur)
                if c['second_market'].get('hh_share'):
                    add(hh, -1, vn(b, ck, 'HH', 'DEM_' + srv.Code), cur)
            for cb in z.get('cross_buy', []):
                if cb['buyer'] == ck:
                    add(hh, -1, vn(b, ck, 'HH', 'DEM_' + b.sectors[(cb['market'], 'GOOD')].FullCode), cur)
            if c.get('custom'):
                g_name = vn(b, ck, 'DONOR', 'GRANT')
                add((ck, 'DONOR'), -1, g_name, cur)
                add((ck, 'RECIP'), +1, g_name, cur)
            if c.get('cap'):
                cap = (ck, 'CAP')
                add(cap, +1, vn(b, ck, 'CAP', 'DIV'), cur)
                if c['cap'].get('portfolio_share'):
                    add(cap, +1, vn(b, ck, 'CAP', 'INTDEP'), cur)
                add(cap, -1, vn(b, ck, 'CAP', 'DEM_' + good), cur)
                add(cap, -1, vn(b, ck, 'CAP', 'T'), cur)
                add(bus, -1, vn(b, ck, 'BUS', 'DIV'), cur)
    for f in b.flows:
        if f['kind'] == 'import':
            m, s = f['market'], f['supplier']
            mk = [k for k, v in b.sectors.items() if v is m][0]
            sk = [k for k, v in b.sectors.items() if v is s][0]
            add(sk, +1, m.GetVariableName('SUP_' + s.FullCode), b.zone_of[mk[0]])
        else:
            src, dst = f['src'], f['dst']
            sk = [k for k, v in b.sectors.items() if v is src][0]
            dk = [k for k, v in b.sectors.items() if v is dst][0]
            name = src.GetVariableName(f['var'])
            add(sk, -1, name, b.zone_of[sk[0]])
            add(dk, +1, name, b.zone_of[sk[0]])
    return out


def check_ledgers(J, b, spec):
    """Every F-holding sector: F[k] - F[k-1] == signed sum of the flows the spec declares for it."""
    exp = expected_flows(b, spec)
    for key, sec in b.sectors.items():
        if not sec.HasF:
            continue
        flows = exp.get(key, [])
        fname = sec.GetVariableName('F')
        cur = b.zone_of[key[0]]

        def lhs(k, fname=fname):
            return J.v(fname, k) - J.v(fname, k - 1)

        def rhs(k, flows=flows, cur=cur):
            tot = Fraction(0)
            for sign, name, fcur in flows:
                amt = J.v(name, k) * rate(J, b, fcur, cur, k)
                if abs(amt) > J.max_flow:
                    J.max_flow = abs(amt)
                tot += sign * amt
            return tot
        J.equal_series('sector_ledger_not_sum_of_declared_flows', 'dF(%s) = sum of declared flows' % fname, lhs, rhs,
                       ctx={'sector': sec.FullCode, 'declared': [(s, n, c) for s, n, c in flows]})


def check_zone_conservation(J, b, spec):
    mod = b.model
    for cz in mod.CurrencyZoneList:
        holders = [s for s in cz.GetSectors() if s.HasF]
        if not holders:
            continue
        names = [s.GetVariableName('F') for s in holders]
        net = None
        if mod.ExternalSector is not None:
            net = mod.ExternalSector['FX'].GetVariableName('NET_' + cz.Currency)

        def lhs(k, names=names, net=net):
            tot = Fraction(0)
            for n in names:
                tot += J.v(n, k) - J.v(n, k - 1)
            if net is not None:
                tot += J.v(net, k)
            return tot
        J.equal_series('money_created_or_destroyed_in_zone', 'sum dF + NET_%s = 0' % cz.Currency, lhs,
                       lambda k: Fraction(0), ctx={'currency': cz.Currency, 'holders': names})


def check_markets(J, b, spec):
    for z in spec['zones']:
        cur = z['cur']
        g = z['gov']
        gkey, grole = b.gov_of[cur]
        regions = [c for c in z['countries'] if c['role'] != 'central']
        zone_keys = [c['key'] for c in z['countries']]
        for c in regions:
            ck = c['key']
            good, lab, hh, bus = (b.sectors[(ck, r)] for r in ('GOOD', 'LAB', 'HH', 'BUS'))
            gcode, lcode = good.Code, lab.Code
            # ---- goods market: declared demanders in the zone
            dem = [vn(b, ck, 'HH', 'DEM_' + gcode)]
            if c.get('cap'):
                dem.append(vn(b, ck, 'CAP', 'DEM_' + gcode))
            if gkey == ck:
                dem.append(vn(b, gkey, grole, 'DEM_' + gcode))
            else:
                dem.append(vn(b, gkey, grole, 'DEM_' + good.FullCode))
            for cb in z.get('cross_buy', []):
                if cb['market'] == ck:
                    dem.append(vn(b, cb['buyer'], 'HH', 'DEM_' + good.FullCode))
                    J.count('goods_market_with_buyer_from_another_region.judged')
            mdem, msup = good.GetVariableName('DEM_' + gcode), good.GetVariableName('SUP_' + gcode)
            J.equal_series('market_demand_not_sum_of_declared_demands', mdem, lambda k, mdem=mdem: J.v(mdem, k),
                           lambda k, dem=dem: sum((J.v(n, k) for n in dem), Fraction(0)), k_from=1,
                           ctx={'market': good.FullCode, 'declared_demanders': dem})
            J.equal_series('market_supply_not_equal_demand', msup, lambda k, msup=msup: J.v(msup, k),
                           lambda k, mdem=mdem: J.v(mdem, k), k_from=1, ctx={'market': good.FullCode})
            suppliers = [bus]
            for f in b.flows:
                if f['kind'] == 'import' and f['market'] is good:
                    suppliers.append(f['supplier'])
            sup_names = [good.GetVariableName('SUP_' + s.FullCode) for s in suppliers]
            J.equal_series('supplier_amounts_do_not_add_up_to_supply', msup,
                           lambda k, sup_names=sup_names: sum((J.v(n, k) for n in sup_names), Fraction(0)),
                           lambda k, msup=msup: J.v(msup, k), k_from=1,
                           ctx={'market': good.FullCode, 'suppliers': sup_names})
            for s in suppliers:
                skey = [k for k, v in b.sectors.items() if v is s][0]
                scur = b.zone_of[skey[0]]
                own = s.GetVariableName(good.GetSupplierTerm(s))
                assigned = good.GetVariableName('SUP_' + s.FullCode)
                J.equal_series('participant_variable_not_market_assigned_amount', own,
                               lambda k, own=own: J.v(own, k),
                               lambda k, assigned=assigned, scur=scur, cur=cur: J.v(assigned, k) * rate(J, b, cur, scur, k),
                               k_from=1, ctx={'market': good.FullCode, 'supplier': s.FullCode,
                                              'cross_currency': scur != cur})
            # ---- second market of the country (government is the only demander, the firm the only supplier)
            if c.get('second_market'):
                srv = b.sectors[(ck, 'SRV')]
                sc = srv.Code
                sdem, ssup = srv.GetVariableName('DEM_' + sc), srv.GetVariableName('SUP_' + sc)
                glocal = 'DEM_' + (sc if c['role'] == 'single' else srv.FullCode)
                dnames2 = [vn(b, gkey, grole, glocal)]
                if c['second_market'].get('hh_share'):
                    dnames2.append(vn(b, ck, 'HH', 'DEM_' + sc))
                    J.count('second_market_with_household_buyer.judged')
                J.equal_series('market_demand_not_sum_of_declared_demands', sdem, lambda k, n=sdem: J.v(n, k),
                               lambda k, ns=tuple(dnames2): sum(J.v(n, k) for n in ns), k_from=1, ctx={'market': srv.FullCode})
                J.equal_series('market_supply_not_equal_demand', ssup, lambda k, n=ssup: J.v(n, k),
                               lambda k, n=sdem: J.v(n, k), k_from=1, ctx={'market': srv.FullCode})
                J.equal_series('supplier_amounts_do_not_add_up_to_supply', ssup,
                               lambda k, n=srv.GetVariableName('SUP_' + bus.FullCode): J.v(n, k),
                               lambda k, n=ssup: J.v(n, k), k_from=1, ctx={'market': srv.FullCode})
                J.equal_series('participant_variable_not_market_assigned_amount', 'firm supply to second market',
                               lambda k, n=bus.GetVariableName(srv.GetSupplierTerm(bus)): J.v(n, k),
                               lambda k, n=srv.GetVariableName('SUP_' + bus.FullCode): J.v(n, k), k_from=1,
                               ctx={'market': srv.FullCode, 'supplier': bus.FullCode})
            # ---- labour market
            ldem, lsup = lab.GetVariableName('DEM_' + lcode), lab.GetVariableName('SUP_' + lcode)
            J.equal_series('market_demand_not_sum_of_declared_demands', ldem, lambda k, ldem=ldem: J.v(ldem, k),
                           lambda k, n=vn(b, ck, 'BUS', 'DEM_' + lcode): J.v(n, k), k_from=1,
                           ctx={'market': lab.FullCode})
            J.equal_series('market_supply_not_equal_demand', lsup, lambda k, lsup=lsup: J.v(lsup, k),
                           lambda k, ldem=ldem: J.v(ldem, k), k_from=1, ctx={'market': lab.FullCode})
            J.equal_series('participant_variable_not_market_assigned_amount', 'labour supply of household',
                           lambda k, n=vn(b, ck, 'HH', 'SUP_' + lcode): J.v(n, k),
                           lambda k, n=lab.GetVariableName('SUP_' + hh.FullCode): J.v(n, k), k_from=1,
                           ctx={'market': lab.FullCode})
            J.equal_series('supplier_amounts_do_not_add_up_to_supply', lsup,
                           lambda k, n=lab.GetVariableName('SUP_' + hh.FullCode): J.v(n, k),
                           lambda k, lsup=lsup: J.v(lsup, k), k_from=1, ctx={'market': lab.FullCode})
            # ---- portfolio: demands for the assets add up to F
            if c['hh']['portfolio'] and g['money'] and g.get('bonds') and c['hh'].get('bond_share'):
                J.count('three_asset_portfolio.judged')
                J.equal_series('asset_demands_do_not_add_up_to_wealth', 'DEM_DEP + DEM_BOND + DEM_MON = F',
                               lambda k, a=vn(b, ck, 'HH', 'DEM_DEP'), m=vn(b, ck, 'HH', 'DEM_MON'), bo=vn(b, ck, 'HH', 'DEM_BOND'):
                               J.v(a, k) + J.v(m, k) + J.v(bo, k),
                               lambda k, f=vn(b, ck, 'HH', 'F'): J.v(f, k), k_from=1, ctx={'household': hh.FullCode})
            elif c['hh']['portfolio'] and g['money']:
                J.equal_series('asset_demands_do_not_add_up_to_wealth', 'DEM_DEP + DEM_MON = F',
                               lambda k, a=vn(b, ck, 'HH', 'DEM_DEP'), m=vn(b, ck, 'HH', 'DEM_MON'):
                               J.v(a, k) + J.v(m, k),
                               lambda k, f=vn(b, ck, 'HH', 'F'): J.v(f, k), k_from=1, ctx={'household': hh.FullCode})
        # ---- taxes: receiver gets exactly what the taxable sectors of the zone pay
        payers = []
        for c in regions:
            payers.append(vn(b, c['key'], 'HH', 'T'))
            if c.get('cap'):
                payers.append(vn(b, c['key'], 'CAP', 'T'))
        J.equal_series('tax_received_not_tax_paid', 'T received = sum T paid',
                       lambda k, n=vn(b, gkey, grole, 'T'): J.v(n, k),
                       lambda k, payers=payers: sum((J.v(n, k) for n in payers), Fraction(0)), k_from=1,
                       ctx={'zone': cur, 'payers': payers})
        # ---- money / deposit markets
        holders = [key for key, s in b.sectors.items() if s.HasF and b.zone_of[key[0]] == cur]
        if g['money']:
            issuer = (gkey, 'CB' if g['form'] in ('treasury_cb', 'gold_cb') else 'GOV')
            mon = b.sectors[(gkey, 'MON')]
            hold_names = [b.sectors[h].GetVariableName('DEM_MON') for h in holders if h != issuer]
            J.equal_series('money_demand_not_sum_of_holders', 'MON demand',
                           lambda k, n=mon.GetVariableName('DEM_MON'): J.v(n, k),
                           lambda k, hold_names=hold_names: sum((J.v(n, k) for n in hold_names), Fraction(0)),
                           k_from=1, ctx={'zone': cur, 'holders': hold_names})
            J.equal_series('issuer_supply_not_market_demand', 'MON supply',
                           lambda k, n=b.sectors[issuer].GetVariableName('SUP_MON'): J.v(n, k),
                           lambda k, n=mon.GetVariableName('DEM_MON'): J.v(n, k), k_from=1, ctx={'zone': cur})
            for h in holders:
                if h == issuer or h[1] in ('TRE', 'CB'):
                    continue
                c = [c for c in regions if c['key'] == h[0]]
                if h[1] == 'HH' and c and c[0]['hh']['portfolio']:
                    continue
                if h[1] == 'CAP' and c and c[0].get('cap') and c[0]['cap'].get('portfolio_share'):
                    J.equal_series('asset_demands_do_not_add_up_to_wealth', 'DEM_DEP + DEM_MON = F (capitalists)',
                                   lambda k, a=vn(b, h[0], 'CAP', 'DEM_DEP'), m=vn(b, h[0], 'CAP', 'DEM_MON'): J.v(a, k) + J.v(m, k),
                                   lambda k, f=vn(b, h[0], 'CAP', 'F'): J.v(f, k), k_from=1, ctx={'sector': b.sectors[h].FullCode})
                    continue
                J.equal_series('default_money_demand_not_financial_assets', 'DEM_MON = F',
                               lambda k, n=b.sectors[h].GetVariableName('DEM_MON'): J.v(n, k),
                               lambda k, n=b.sectors[h].GetVariableName('F'): J.v(n, k), k_from=1,
                               ctx={'sector': b.sectors[h].FullCode})
        if g['deposits']:
            dep = b.sectors[(gkey, 'DEP')]
            dholders = [(c['key'], 'HH') for c in regions if c['hh']['portfolio']]
            dholders += [(c['key'], 'CAP') for c in regions if c.get('cap') and c['cap'].get('portfolio_share')]
            if g['form'] in ('treasury_cb', 'gold_cb'):
                dholders.append((gkey, 'CB'))
            dnames = [b.sectors[h].GetVariableName('DEM_DEP') for h in dholders]
            J.equal_series('deposit_demand_not_sum_of_holders', 'DEP demand',
                           lambda k, n=dep.GetVariableName('DEM_DEP'): J.v(n, k),
                           lambda k, dnames=dnames: sum((J.v(n, k) for n in dnames), Fraction(0)), k_from=1,
                           ctx={'zone': cur, 'holders': dnames})
            J.equal_series('issuer_supply_not_market_demand', 'DEP supply',
                           lambda k, n=vn(b, gkey, grole, 'SUP_DEP'): J.v(n, k),
                           lambda k, n=dep.GetVariableName('DEM_DEP'): J.v(n, k), k_from=1, ctx={'zone': cur})
            inames = [b.sectors[h].GetVariableName('INTDEP') for h in dholders]
            J.equal_series('interest_paid_not_interest_received', 'INTDEP',
                           lambda k, n=vn(b, gkey, grole, 'INTDEP'): J.v(n, k),
                           lambda k, inames=inames: sum((J.v(n, k) for n in inames), Fraction(0)), k_from=2,
                           ctx={'zone': cur})
        if g.get('bonds'):
            bond = b.sectors[(gkey, 'BOND')]
            bholders = [(c['key'], 'HH') for c in regions if c['hh']['portfolio'] and c['hh'].get('bond_share')]
            bnames = [b.sectors[h].GetVariableName('DEM_BOND') for h in bholders]
            J.equal_series('deposit_demand_not_sum_of_holders', 'BOND demand',
                           lambda k, n=bond.GetVariableName('DEM_BOND'): J.v(n, k),
                           lambda k, bnames=bnames: sum((J.v(n, k) for n in bnames), Fraction(0)), k_from=1,
                           ctx={'zone': cur, 'holders': bnames})
            J.equal_series('issuer_supply_not_market_demand', 'BOND supply',
                           lambda k, n=vn(b, gkey, grole, 'SUP_BOND'): J.v(n, k),
                           lambda k, n=bond.GetVariableName('DEM_BOND'): J.v(n, k), k_from=1, ctx={'zone': cur})
            binames = [b.sectors[h].GetVariableName('INTBOND') for h in bholders]
            J.equal_series('interest_paid_not_interest_received', 'INTBOND',
                           lambda k, n=vn(b, gkey, grole, 'INTBOND'): J.v(n, k),
                           lambda k, binames=binames: sum((J.v(n, k) for n in binames), Fraction(0)), k_from=2,
                           ctx={'zone': cur})
        for c in regions:
            if c.get('cap'):
                ck = c['key']
                J.equal_series('dividends_paid_not_received', 'DIV',
                               lambda k, n=vn(b, ck, 'CAP', 'DIV'): J.v(n, k),
                               lambda k, n=vn(b, ck, 'BUS', 'DIV'): J.v(n, k), k_from=1, ctx={'country': ck})


def check_fx(J, b, spec):
    mod = b.model
    ext = mod.ExternalSector
    if ext is None:
        return
    fx = ext['FX']
    curs = [cz.Currency for cz in mod.CurrencyZoneList]
    nets = {c: fx.GetVariableName('NET_' + c) for c in curs}

    def valued(k):
        tot = Fraction(0)
        for c in curs:
            tot += J.v(nets[c], k) * J.v(xr_name(b, c), k)
        return tot
    J.equal_series('fx_net_positions_not_zero_in_numeraire', 'sum NET_c * XR_c = 0', valued,
                   lambda k: Fraction(0), k_from=1, ctx={'currencies': curs})
    has_gold = any(z['gov']['form'] in ('gold', 'gold_cb') for z in spec['zones'])
    if not has_gold and not spec.get('row'):
        J.equal_series('numeraire_position_not_zero_with_paired_flows', 'NET_NUMERAIRE = 0',
                       lambda k: J.v(nets['NUMERAIRE'], k), lambda k: Fraction(0), k_from=1)
    # each real currency (and the numeraire when a sector lives in it): NET = outflows sent - inflows received
    zlist = list(spec['zones'])
    if spec.get('row') and not has_gold:
        zlist.append({'cur': 'NUMERAIRE', 'gov': {'form': None}})
    for z in zlist:
        cur = z['cur']
        sent, recv = [], []
        for f in b.flows:
            if f['kind'] == 'gift':
                sk = [k for k, v in b.sectors.items() if v is f['src']][0]
                dk = [k for k, v in b.sectors.items() if v is f['dst']][0]
                sc, dc = b.zone_of[sk[0]], b.zone_of[dk[0]]
                name = f['src'].GetVariableName(f['var'])
            else:
                mk = [k for k, v in b.sectors.items() if v is f['market']][0]
                pk = [k for k, v in b.sectors.items() if v is f['supplier']][0]
                sc, dc = b.zone_of[mk[0]], b.zone_of[pk[0]]     # the market's zone pays, supplier's receives
                name = f['market'].GetVariableName('SUP_' + f['supplier'].FullCode)
            if sc == dc:
                continue
            if sc == cur:
                sent.append((name, sc))
            if dc == cur:
                recv.append((name, sc))
        gold = []
        gh = gold_holder(b, z) if z['gov']['form'] else None
        if gh is not None:
            gold.append(vn(b, gh[0], gh[1], 'GOLDPURCHASES'))

        def expected(k, sent=sent, recv=recv, gold=gold, cur=cur):
            tot = Fraction(0)
            for n, c in sent:
                tot += J.v(n, k)
            for n, c in recv:
                tot -= J.v(n, k) * rate(J, b, c, cur, k)
            for n in gold:
                tot += J.v(n, k)
            return tot
        J.equal_series('fx_position_not_declared_cross_currency_flows', 'NET_%s' % cur,
                       lambda k, n=nets[cur]: J.v(n, k), expected, k_from=1,
                       ctx={'currency': cur, 'sent': sent, 'received': recv})
        for n, c in recv:
            J.count('cross_currency_credit.judged')
