"""Independent reader of an equation block (reference line classifier) and residual checker.

Not the repository's parser: a regex/partition based splitter written from the documented syntax.
Marker rule (the documented intent): a line switches to the exogenous section when its code part
(before any '#') has no '=' and contains the word 'exogenous', or it is a comment-only line whose
comment contains the word.
"""
import math
import re

# the three documented spellings of a lag: x(k-1), x(t-1) and the tokenizer-spaced 'x (k -1 )' - nothing more lenient:
# 'tanh(t - 1)' or 'x*(-1)' are ordinary expressions
_LAG_SPELLING = r'(?:\(k-1\)|\(t-1\)| \(k -1 \))'
LAG_RE = re.compile(r'^\s*([A-Za-z_][A-Za-z_0-9]*)\s*' + _LAG_SPELLING + r'\s*$')
LAG_ANY = re.compile(_LAG_SPELLING)
IC_RE = re.compile(r'^([A-Za-z_][A-Za-z_0-9]*)\(0\)$')


def split_block(text):
    out = {'endo': [], 'lag': [], 'exo': [], 'ic': {}, 'maxtime': None, 'tol': None, 'malformed': [],
           'order': []}
    mode = 'endo'
    for raw in text.split('\n'):
        code, sep, comment = raw.partition('#')
        code = code.strip()
        if 'exogenous' in code.lower() and '=' not in code:
            mode = 'exo'
            continue
        if code == '':
            if sep and 'exogenous' in comment.lower():
                mode = 'exo'
            continue
        parts = code.split('=')
        if len(parts) != 2:
            out['malformed'].append(code)
            continue
        name, rhs = parts[0].strip(), parts[1].strip()
        if name == 'MaxTime':
            out['maxtime'] = rhs
            continue
        if name == 'Err_Tolerance':
            out['tol'] = rhs
            continue
        if mode == 'exo':
            out['exo'].append((name, rhs))
            out['order'].append(('exo', name))
            continue
        m = IC_RE.match(name.replace(' ', ''))
        if m:
            out['ic'][m.group(1)] = rhs
            continue
        m = LAG_RE.match(rhs)
        if m:
            out['lag'].append((name, m.group(1)))
            out['order'].append(('lag', name))
            continue
        if LAG_ANY.search(rhs):
            out['malformed'].append(code)
            continue
        out['endo'].append((name, rhs))
        out['order'].append(('endo', name))
    names = [n for n, _ in out['endo']] + [n for n, _ in out['lag']] + [n for n, _ in out['exo']]
    if 't' not in names and 't_minus_1' not in names:
        out['endo'].append(('t', 'k'))
    return out


FUNCS = {'max': max, 'min': min, 'abs': abs, 'float': float, 'pow': pow, 'sum': sum, 'round': round}
for _n in dir(math):
    if not _n.startswith('_'):
        FUNCS[_n] = getattr(math, _n)


def ev(expr, env, funcs=None):
    g = {'__builtins__': {}}
    g.update(FUNCS)
    if funcs:
        g.update(funcs)
    return eval(expr, g, env)


def name_tokens(expr):
    import io
    import tokenize
    out = []
    for tok in tokenize.tokenize(io.BytesIO(expr.encode('utf-8')).readline):
        if tok.type == tokenize.NAME:
            out.append(tok.string)
    return out


def derived_only(blk):
    """Conservative set of variables nothing depends on (leaves of the submitted text; lag sources and names used in exogenous / initial-condition rows count as used)."""
    eqs = dict(blk['endo'])
    deps = {n: set(name_tokens(r)) for n, r in eqs.items()}
    pinned = set(s for _, s in blk['lag'])
    for _, r in blk['exo']:
        pinned.update(name_tokens(r) if isinstance(r, str) else [])
    for r in blk['ic'].values():
        pinned.update(name_tokens(str(r)))
    # single pass only: a variable referenced solely by another derived-only variable is *not* claimed
    # (the repository's reducer keeps such variables in the simultaneous block, which is legitimate)
    removed = set()
    for n in sorted(eqs):
        if n in pinned:
            continue
        if not any(n in deps[m] for m in eqs):
            removed.add(n)
    return removed


def check_solution(blk, series, tol, funcs=None, exact_names=(), k_from=1, k_to=None, C=2.0):
    """Offline residual monitor.  Returns (violations, stats).

    For every period k>=k_from and every equation of the submitted block: |v - f(v)| <=
    C*(1+sum_j|df/dx_j|)*tol*S (C=2) + 1e-12*S;  names in exact_names must satisfy their equation with ==;
    lagged[k] == source[k-1];  all values finite real numbers.
    """
    viol = []
    stats = {'equations_judged': 0, 'exact_judged': 0, 'lag_judged': 0, 'worst_ratio': 0.0,
             'finite_judged': 0}
    eqs = blk['endo']
    lag = blk['lag']
    names = [n for n, _ in eqs] + [n for n, _ in lag] + [n for n, _ in blk['exo']]
    if not names:
        return viol, stats
    n_per = min(len(series[n]) for n in names if n in series)
    if k_to is None:
        k_to = n_per - 1
    missing = [n for n in names if n not in series]
    if missing:
        viol.append({'kind': 'variable_missing', 'detail': {'missing': missing[:10]}})
        return viol, stats
    lagnames = set(n for n, _ in lag)
    exonames = set(n for n, _ in blk['exo'])
    for k in range(0, k_to + 1):
        for n in names:
            v = series[n][k]
            stats['finite_judged'] += 1
            if isinstance(v, bool) or not isinstance(v, (int, float)) or v != v or v in (float('inf'), float('-inf')):
                viol.append({'kind': 'non_finite_value', 'detail': {'var': n, 'k': k, 'value': repr(v)}})
                return viol, stats
    for k in range(max(1, k_from), k_to + 1):
        env = {n: series[n][k] for n in names}
        env['k'] = series['k'][k] if 'k' in series else float(k)
        S = max([1.0] + [abs(env[n]) for n in names])
        for n, src in lag:
            stats['lag_judged'] += 1
            if not (series[n][k] == series[src][k - 1]):
                viol.append({'kind': 'lag_not_previous_value',
                             'detail': {'var': n, 'k': k, 'got': series[n][k], 'source_prev': series[src][k - 1]}})
        for n, rhs in eqs:
            try:
                f0 = ev(rhs, env, funcs)
            except Exception as e:
                viol.append({'kind': 'equation_unevaluable_at_solution',
                             'detail': {'var': n, 'rhs': rhs, 'k': k, 'err': repr(e)}})
                continue
            v = env[n]
            if n in exact_names:
                stats['exact_judged'] += 1
                if not (v == f0):
                    viol.append({'kind': 'derived_variable_not_exact',
                                 'detail': {'var': n, 'rhs': rhs, 'k': k, 'value': v, 'f': f0}})
                continue
            # numeric partials wrt non-pinned names (central differences)
            jsum = 0.0
            for m in set(name_tokens(rhs)):
                if m not in env or m in lagnames or m in exonames or m == 'k':
                    continue
                x = env[m]
                h = 1e-6 * max(1.0, abs(x))
                e2 = dict(env)
                try:
                    e2[m] = x + h
                    fp = ev(rhs, e2, funcs)
                    e2[m] = x - h
                    fm = ev(rhs, e2, funcs)
                    jsum += abs(fp - fm) / (2 * h)
                except Exception:
                    jsum += 1.0
            bound = C * (1.0 + jsum) * tol * S + 1e-12 * S
            r = abs(v - f0)
            stats['equations_judged'] += 1
            ratio = r / bound if bound > 0 else (0.0 if r == 0 else float('inf'))
            if ratio > stats['worst_ratio']:
                stats['worst_ratio'] = ratio
            if not (r <= bound):
                viol.append({'kind': 'residual_exceeds_bound',
                             'detail': {'var': n, 'rhs': rhs, 'k': k, 'value': v, 'f': f0, 'residual': r,
                                        'bound': bound, 'tol': tol, 'S': S, 'jsum': jsum}})
    return viol, stats
