"""Runtime-monitoring machinery for brianr747/SFC_models (properties C01-C20)."""
