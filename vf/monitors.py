"""Run-time wrappers around real functions of the repository ("invariant at a hook").

Every monitor records into a Recorder: counters (calls seen / post-conditions evaluated / skipped)
and violations (record, don't raise - the code under test continues undisturbed).
A crash inside a monitor is counted as monitor_error and never becomes a violation.
"""
import functools
import io
import sys
import tokenize

SKIP_TOK = None


def _skip():
    global SKIP_TOK
    if SKIP_TOK is None:
        SKIP_TOK = {tokenize.ENCODING, tokenize.NEWLINE, tokenize.NL, tokenize.ENDMARKER,
                    tokenize.INDENT, tokenize.DEDENT}
    return SKIP_TOK


class Recorder(object):
    def __init__(self):
        self.counters = {}
        self.violations = []

    def count(self, name, n=1):
        self.counters[name] = self.counters.get(name, 0) + n

    def violate(self, kind, detail, mechanism=None):
        if len(self.violations) < 20:
            self.violations.append({'kind': kind, 'mechanism': mechanism or kind, 'detail': detail})
        self.count('violations_recorded')


def token_stream(s):
    """[(type, string)] of a one-line source text, layout tokens removed."""
    out = []
    for tok in tokenize.tokenize(io.BytesIO(s.encode('utf-8')).readline):
        if tok.type in _skip():
            continue
        out.append((tok.type, tok.string))
    return out


def patch_everywhere(original, replacement, prefix='sfc_models'):
    """Rebind every module-level reference to `original` in loaded modules of the package
    (covers `from m import f`).  Returns an undo list."""
    undo = []
    for name, mod in list(sys.modules.items()):
        if mod is None or not (name == prefix or name.startswith(prefix + '.')):
            continue
        for attr, val in list(vars(mod).items()):
            if val is original:
                setattr(mod, attr, replacement)
                undo.append((mod, attr, original))
    return undo


def unpatch(undo):
    for mod, attr, original in undo:
        setattr(mod, attr, original)


# ---------------------------------------------------------------------------------------------
# C13: token functions
# ---------------------------------------------------------------------------------------------

def check_replace_result(s, lookup, result, rec, where):
    """Token-stream hygiene of a replacement: exactly the mapped NAME tokens change."""
    try:
        orig = token_stream(s)
    except (tokenize.TokenError, SyntaxError, IndentationError):
        rec.count(where + '.skipped_untokenizable')
        return
    rec.count(where + '.post_evaluated')
    expected = [(t, lookup[v]) if (t == tokenize.NAME and v in lookup) else (t, v) for t, v in orig]
    try:
        got = token_stream(result)
    except (tokenize.TokenError, SyntaxError, IndentationError) as e:
        rec.violate('replace_result_untokenizable',
                    {'where': where, 's': s, 'lookup': lookup, 'result': result, 'err': repr(e)})
        return
    if got != expected:
        rec.violate('replace_token_stream',
                    {'where': where, 's': s, 'lookup': lookup, 'result': result,
                     'expected_tokens': [v for _, v in expected][:60],
                     'got_tokens': [v for _, v in got][:60]})


def install_token_monitors(rec):
    import sfc_models.utils as U
    undo = []
    o_list, o_rep, o_look = U.list_tokens, U.replace_token, U.replace_token_from_lookup

    @functools.wraps(o_list)
    def list_tokens(s):
        out = o_list(s)
        rec.count('list_tokens.calls')
        try:
            try:
                exp = [v for t, v in token_stream(s) if t == tokenize.NAME]
            except (tokenize.TokenError, SyntaxError, IndentationError):
                rec.count('list_tokens.skipped_untokenizable')
                return out
            rec.count('list_tokens.post_evaluated')
            if list(out) != exp:
                rec.violate('list_tokens', {'where': 'in-situ', 's': s, 'got': out, 'expected': exp})
        except Exception as e:  # monitor bug: never a violation
            rec.count('monitor_error')
        return out

    @functools.wraps(o_rep)
    def replace_token(s, target, replacement):
        out = o_rep(s, target, replacement)
        rec.count('replace_token.calls')
        try:
            check_replace_result(s, {target: replacement}, out, rec, 'replace_token')
        except Exception:
            rec.count('monitor_error')
        return out

    @functools.wraps(o_look)
    def replace_token_from_lookup(s, lookup):
        out = o_look(s, lookup)
        rec.count('replace_token_from_lookup.calls')
        try:
            check_replace_result(s, dict(lookup), out, rec, 'replace_token_from_lookup')
        except Exception:
            rec.count('monitor_error')
        return out

    undo += patch_everywhere(o_list, list_tokens)
    undo += patch_everywhere(o_rep, replace_token)
    undo += patch_everywhere(o_look, replace_token_from_lookup)
    return undo
