"""Run-time wrappers around real functions of the repository ("invariant at a hook").

Every monitor records into a Recorder: counters (calls seen / post-conditions evaluated / skipped)
and violations (record, don't raise - the code under test continues undisturbed).
A crash inside a monitor is counted as monitor_error and never becomes a violation.
"""
import functools
import io
import sys
import tokenize

SKIP_TOK = None


def _skip():
    global SKIP_TOK
    if SKIP_TOK is None:
        SKIP_TOK = {tokenize.ENCODING, tokenize.NEWLINE, tokenize.NL, tokenize.ENDMARKER,
                    tokenize.INDENT, tokenize.DEDENT}
    return SKIP_TOK


class Recorder(object):
    def __init__(self):
        self.counters = {}
        self.violations = []

    def count(self, name, n=1):
        self.counters[name] = self.counters.get(name, 0) + n

    def violate(self, kind, detail, mechanism=None):
        if len(self.violations) < 20:
            self.violations.append({'kind': kind, 'mechanism': mechanism or kind, 'detail': detail})
        self.count('violations_recorded')


def token_stream(s):
    """[(type, string)] of a one-line source text, layout tokens removed."""
    out = []
    for tok in tokenize.tokenize(io.BytesIO(s.encode('utf-8')).readline):
        if tok.type in _skip():
            continue
        out.append((tok.type, tok.string))
    return out


def patch_everywhere(original, replacement, prefix='sfc_models'):
    """Rebind every module-level reference to `original` in loaded modules of the package
    (covers `from m import f`).  Returns an undo list."""
    undo = []
    for name, mod in list(sys.modules.items()):
        if mod is None or not (name == prefix or name.startswith(prefix + '.')):
            continue
        for attr, val in list(vars(mod).items()):
            if val is original:
                setattr(mod, attr, replacement)
                undo.append((mod, attr, original))
    return undo


def unpatch(undo):
    for mod, attr, original in undo:
        setattr(mod, attr, original)


# ---------------------------------------------------------------------------------------------
# C13: token functions
# ---------------------------------------------------------------------------------------------

def check_replace_result(s, lookup, result, rec, where):
    """Token-stream hygiene of a replacement: exactly the mapped NAME tokens change."""
    try:
        orig = token_stream(s)
    except (tokenize.TokenError, SyntaxError, IndentationError):
        rec.count(where + '.skipped_untokenizable')
        return
    rec.count(where + '.post_evaluated')
    expected = [(t, lookup[v]) if (t == tokenize.NAME and v in lookup) else (t, v) for t, v in orig]
    try:
        got = token_stream(result)
    except (tokenize.TokenError, SyntaxError, IndentationError) as e:
        rec.violate('replace_result_untokenizable',
                    {'where': where, 's': s, 'lookup': lookup, 'result': result, 'err': repr(e)})
        return
    if got != expected:
        rec.violate('replace_token_stream',
                    {'where': where, 's': s, 'lookup': lookup, 'result': result,
                     'expected_tokens': [v for _, v in expected][:60],
                     'got_tokens': [v for _, v in got][:60]})


def install_token_monitors(rec):
    import sfc_models.utils as U
    undo = []
    o_list, o_rep, o_look = U.list_tokens, U.replace_token, U.replace_token_from_lookup

    @functools.wraps(o_list)
    def list_tokens(s):
        out = o_list(s)
        rec.count('list_tokens.calls')
        try:
            try:
                exp = [v for t, v in token_stream(s) if t == tokenize.NAME]
            except (tokenize.TokenError, SyntaxError, IndentationError):
                rec.count('list_tokens.skipped_untokenizable')
                return out
            rec.count('list_tokens.post_evaluated')
            if list(out) != exp:
                rec.violate('list_tokens', {'where': 'in-situ', 's': s, 'got': out, 'expected': exp})
        except Exception as e:  # monitor bug: never a violation
            rec.count('monitor_error')
        return out

    @functools.wraps(o_rep)
    def replace_token(s, target, replacement):
        out = o_rep(s, target, replacement)
        rec.count('replace_token.calls')
        try:
            check_replace_result(s, {target: replacement}, out, rec, 'replace_token')
        except Exception:
            rec.count('monitor_error')
        return out

    @functools.wraps(o_look)
    def replace_token_from_lookup(s, lookup):
        out = o_look(s, lookup)
        rec.count('replace_token_from_lookup.calls')
        try:
            check_replace_result(s, dict(lookup), out, rec, 'replace_token_from_lookup')
        except Exception:
            rec.count('monitor_error')
        return out

    undo += patch_everywhere(o_list, list_tokens)
    undo += patch_everywhere(o_rep, replace_token)
    undo += patch_everywhere(o_look, replace_token_from_lookup)
    return undo


# ---------------------------------------------------------------------------------------------
# C12: Equation.AddTerm value post-condition (in situ)
# ---------------------------------------------------------------------------------------------

_DY = [1.0, 2.0, 4.0, 0.5, 3.0, 5.0, 1.5, 0.25, 6.0, 8.0, 7.0, 0.75, 1.25, 2.5]


class HashEnv(dict):
    """Valuation of arbitrary names by a hash of the name (exactly representable values)."""

    def __init__(self, salt=0):
        dict.__init__(self)
        self.salt = salt

    def __missing__(self, name):
        import zlib
        v = _CallNum(_DY[(zlib.crc32(name.encode('utf-8')) + self.salt) % len(_DY)])
        self[name] = v
        return v


class _CallNum(float):
    def __call__(self, *a):
        return _CallNum(float(self) * 0.5)


def eval_hash(src, salt=0):
    import math
    g = {'__builtins__': {}, 'max': max, 'min': min, 'abs': abs, 'float': float, 'pow': pow,
         'sqrt': math.sqrt, 'exp': math.exp, 'log': math.log}
    return eval(src, g, HashEnv(salt))


def install_addterm_monitor(rec):
    from sfc_models.equation import Equation, Term
    orig = Equation.AddTerm

    def AddTerm(self, term):
        rec.count('addterm.calls')
        before = None
        try:
            before_src = self.GetRightHandSide()
            t = Term(term)
            if t.IsBlob:
                tsrc = t.Term if t.Term != '' else '0.0'
                tval = [eval_hash(tsrc, s) for s in (0, 1)]
            else:
                tval = [t.Constant * eval_hash(t.Term, s) for s in (0, 1)]
            before = [eval_hash(before_src, s) for s in (0, 1)]
            if not all(isinstance(v, (int, float)) for v in before + tval):
                raise TypeError('non-numeric')
        except Exception:
            before = None
            rec.count('addterm.skipped_unevaluable')
        out = orig(self, term)
        if before is not None:
            try:
                after_src = self.GetRightHandSide()
                for i, s in enumerate((0, 1)):
                    after = eval_hash(after_src, s)
                    exp = before[i] + tval[i]
                    if abs(after - exp) > 1e-9 * max(1.0, abs(exp), abs(after)):
                        rec.violate('insitu_addterm_value',
                                    {'lhs': self.LeftHandSide, 'before': before_src, 'term': str(term),
                                     'after': after_src, 'expected': exp, 'got': after})
                        break
                else:
                    rec.count('addterm.post_evaluated')
            except Exception:
                rec.count('monitor_error')
        return out

    Equation.AddTerm = AddTerm
    return [(Equation, 'AddTerm', orig)]


# ---------------------------------------------------------------------------------------------
# C16 / C19: readers (in situ)
# ---------------------------------------------------------------------------------------------

PRIORITY = ('iteration', 'iteration_error', 'iteration_abs_change', 'k', 't')


def reference_table(holder, fmt):
    """Reference renderer: (header list, rows as lists of cell strings)."""
    names = sorted(holder.keys())
    head = [p for p in PRIORITY if p in names]
    rest = [n for n in names if n not in head]
    header = head + rest
    if not header:
        return [], []
    n = min(len(holder[x]) for x in header)
    rows = []
    for i in range(n):
        rows.append([fmt % (holder[x][i],) for x in header])
    return header, rows


def parse_table(text):
    if text == '':
        return [], []
    lines = text.split('\n')
    if lines and lines[-1] == '':
        lines = lines[:-1]
    header = lines[0].split('\t')
    rows = [ln.split('\t') for ln in lines[1:]]
    return header, rows


def snapshot_holders(solver):
    import copy
    return {'main': copy.deepcopy(dict(solver.TimeSeries)),
            'step': copy.deepcopy(dict(solver.TimeSeriesStepTrace)),
            'initial': copy.deepcopy(dict(solver.TimeSeriesInitialSteadyState))}


def same_holders(a, b):
    # NaN-tolerant equality of snapshots
    return repr(a) == repr(b)


def install_reader_monitors(rec):
    from sfc_models.models import Model
    from sfc_models.utils import TimeSeriesHolder
    o_get = Model.GetTimeSeries
    o_csv = TimeSeriesHolder.GenerateCSVtext

    def GetTimeSeries(self, series, cutoff=None, group_of_series='main'):
        rec.count('gettimeseries.calls')
        try:
            before = snapshot_holders(self.EquationSolver)
        except Exception:
            before = None
            rec.count('monitor_error')
        out = o_get(self, series, cutoff=cutoff, group_of_series=group_of_series)
        if before is not None:
            try:
                after = snapshot_holders(self.EquationSolver)
                if not same_holders(before, after):
                    rec.violate('read_changed_stored_results',
                                {'where': 'in-situ GetTimeSeries', 'series': series, 'cutoff': cutoff,
                                 'group': group_of_series})
                eff = cutoff if cutoff is not None else self.TimeSeriesCutoff
                ref = list(before[group_of_series][series])
                if eff is not None:
                    ref = ref[0:eff + 1]
                if self.TimeSeriesSupressTimeZero:
                    ref = ref[1:]
                if repr(list(out)) != repr(ref):
                    rec.violate('read_wrong_slice', {'where': 'in-situ GetTimeSeries', 'series': series,
                                                     'cutoff': eff, 'got': list(out)[:8], 'expected': ref[:8]})
                rec.count('gettimeseries.post_evaluated')
            except Exception:
                rec.count('monitor_error')
        return out

    def GenerateCSVtext(self, format_str='%.5g'):
        rec.count('csvtext.calls')
        import copy
        try:
            before = copy.deepcopy(dict(self))
        except Exception:
            before = None
        out = o_csv(self, format_str)
        if before is not None:
            try:
                if repr(before) != repr(dict(self)):
                    rec.violate('render_changed_stored_results', {'where': 'in-situ GenerateCSVtext'})
                h, rows = reference_table(before, format_str)
                gh, grows = parse_table(out)
                if gh != h or grows != rows:
                    rec.violate('table_not_faithful', {'where': 'in-situ GenerateCSVtext',
                                                       'header_got': gh[:12], 'header_expected': h[:12],
                                                       'n_rows_got': len(grows), 'n_rows_expected': len(rows)})
                rec.count('csvtext.post_evaluated')
            except Exception:
                rec.count('monitor_error')
        return out

    Model.GetTimeSeries = GetTimeSeries
    TimeSeriesHolder.GenerateCSVtext = GenerateCSVtext
    return [(Model, 'GetTimeSeries', o_get), (TimeSeriesHolder, 'GenerateCSVtext', o_csv)]


# ---------------------------------------------------------------------------------------------
# C06: Sector.AddCashFlow ledger post-condition (in situ)
# ---------------------------------------------------------------------------------------------

def install_cashflow_monitor(rec):
    from sfc_models.sector import Sector
    from sfc_models.equation import Term
    orig = Sector.AddCashFlow

    def AddCashFlow(self, term, eqn=None, desc=None, is_income=True):
        rec.count('addcashflow.calls')
        pre = None
        try:
            t = term.strip()
            if len(t) > 0:
                tobj = Term(t)
                excluded = any(obj.ID == self.ID and tobj.Term == name
                               for obj, name in self.GetModel().IncomeExclusions)
                fb = [eval_hash(self.EquationBlock['F'].RHS(), s) for s in (0, 1)]
                ib = [eval_hash(self.EquationBlock['INC'].RHS(), s) for s in (0, 1)]
                tv = [tobj.Constant * eval_hash(tobj.Term, s) for s in (0, 1)]
                had_def = None
                if eqn is not None and tobj.Term in self.EquationBlock:
                    had_def = self.EquationBlock[tobj.Term].RHS()
                pre = (fb, ib, tv, excluded, tobj.Term, had_def)
        except Exception:
            rec.count('addcashflow.skipped')
        out = orig(self, term, eqn=eqn, desc=desc, is_income=is_income)
        if pre is not None:
            try:
                fb, ib, tv, excluded, core, had_def = pre
                for i, s in enumerate((0, 1)):
                    fa = eval_hash(self.EquationBlock['F'].RHS(), s)
                    ia = eval_hash(self.EquationBlock['INC'].RHS(), s)
                    ef = fb[i] + tv[i]
                    ei = ib[i] + (tv[i] if (is_income and not excluded) else 0.0)
                    if abs(fa - ef) > 1e-9 * max(1.0, abs(ef)):
                        rec.violate('insitu_F_ledger', {'sector': self.Code, 'term': term, 'expected': ef, 'got': fa,
                                                        'F': self.EquationBlock['F'].RHS()[:300]})
                        break
                    if abs(ia - ei) > 1e-9 * max(1.0, abs(ei)):
                        rec.violate('insitu_INC_ledger', {'sector': self.Code, 'term': term, 'is_income': is_income,
                                                          'excluded': excluded, 'expected': ei, 'got': ia,
                                                          'INC': self.EquationBlock['INC'].RHS()[:300]})
                        break
                else:
                    rec.count('addcashflow.post_evaluated')
                if eqn is not None:
                    now = self.EquationBlock[core].RHS() if core in self.EquationBlock else None
                    if had_def is not None and had_def not in ('', '0.0') and now != had_def:
                        rec.violate('insitu_definition_overwritten', {'sector': self.Code, 'var': core,
                                                                      'before': had_def, 'after': now})
                    rec.count('addcashflow.def_checked')
            except Exception:
                rec.count('monitor_error')
        return out

    Sector.AddCashFlow = AddCashFlow
    return [(Sector, 'AddCashFlow', orig)]
